//! Bounded stand-in for the parts of C21 that unit `lterm` does not prove (Hash, Extend, collect/FromIterator, Index,
//! iter_mut, contains, list Display) and cross-check of what it proves (==, list constructors, inspectors, iter):
//! every term of a small universe (3 variables, numbers, booleans, strings, proper and improper lists up to length 3,
//! nested once, pairs as compounds) against an independent model (a Rust enum and Vec).
use crate::util::*;
use proto_vulcan::engine::DefaultEngine;
use proto_vulcan::lterm::LTerm;
use proto_vulcan::user::DefaultUser;
use std::collections::hash_map::DefaultHasher;
use std::hash::{Hash, Hasher};

type U = DefaultUser;
type E = DefaultEngine<U>;
type T = LTerm<U, E>;

#[derive(Clone, Debug, PartialEq, Eq)]
enum M { V(usize), N(isize), B(bool), S(&'static str), L(Vec<M>, Option<Box<M>>), P(Box<M>, Box<M>) }

impl M {
    fn build(&self, vars: &[T]) -> T {
        match self {
            M::V(i) => vars[*i].clone(), M::N(k) => LTerm::from(*k), M::B(b) => LTerm::from(*b), M::S(s) => LTerm::from(*s),
            M::L(es, None) => LTerm::from_vec(es.iter().map(|e| e.build(vars)).collect()),
            M::L(es, Some(t)) => { let mut v: Vec<T> = es.iter().map(|e| e.build(vars)).collect(); v.push(t.build(vars)); LTerm::improper_from_vec(v) }
            M::P(a, b) => (a.build(vars), b.build(vars)).into(),
        }
    }
    fn show(&self) -> String {
        match self {
            M::V(i) => format!("x{}", i), M::N(k) => k.to_string(), M::B(b) => b.to_string(), M::S(s) => format!("{:?}", s),
            M::L(es, None) => format!("[{}]", es.iter().map(|e| e.show()).collect::<Vec<_>>().join(", ")),
            M::L(es, Some(t)) => format!("[{} | {}]", es.iter().map(|e| e.show()).collect::<Vec<_>>().join(", "), t.show()),
            M::P(a, b) => format!("<{}, {}>", a.show(), b.show()),
        }
    }
    /// element sequence as LTerm's iterator defines it: an improper tail is a final element, a non-list is itself
    fn items(&self) -> Vec<M> {
        match self {
            M::L(es, None) => es.clone(),
            M::L(es, Some(t)) => { let mut v = es.clone(); v.extend(t.items()); v }
            other => vec![other.clone()],
        }
    }
    /// normal form: an improper list whose tail is a list is the longer list
    fn norm(&self) -> M {
        match self {
            M::L(es, Some(t)) => { let es: Vec<M> = es.iter().map(|e| e.norm()).collect(); match t.norm() { M::L(more, tl) => { let mut v = es; v.extend(more); M::L(v, tl) } other => M::L(es, Some(Box::new(other))) } }
            M::L(es, None) => M::L(es.iter().map(|e| e.norm()).collect(), None),
            M::P(a, b) => M::P(Box::new(a.norm()), Box::new(b.norm())),
            o => o.clone(),
        }
    }
}
fn h(t: &T) -> u64 { let mut s = DefaultHasher::new(); t.hash(&mut s); s.finish() }

fn universe() -> Vec<M> {
    let atoms = vec![M::V(0), M::V(1), M::V(2), M::N(1), M::N(2), M::B(true), M::S("a")];
    let mut out = atoms.clone();
    let mut lists = vec![M::L(vec![], None)];
    for a in &atoms[..5] { lists.push(M::L(vec![a.clone()], None)); for b in &atoms[..4] { lists.push(M::L(vec![a.clone(), b.clone()], None)); lists.push(M::L(vec![a.clone()], Some(Box::new(b.clone())))); } }
    lists.push(M::L(vec![M::N(1), M::N(2)], None));
    lists.push(M::L(vec![M::N(1), M::N(2), M::V(0)], None));
    lists.push(M::L(vec![M::N(1), M::N(2)], Some(Box::new(M::V(0)))));
    lists.push(M::L(vec![M::L(vec![M::V(0)], None), M::N(1)], None));
    lists.push(M::L(vec![M::N(1)], Some(Box::new(M::L(vec![M::N(2)], None)))));       // improper_from_vec with a list tail
    lists.push(M::L(vec![M::L(vec![M::N(1)], Some(Box::new(M::V(1))))], None));
    out.extend(lists);
    out.push(M::P(Box::new(M::V(0)), Box::new(M::N(1))));
    out.push(M::P(Box::new(M::N(1)), Box::new(M::N(1))));
    out.push(M::P(Box::new(M::L(vec![M::V(0)], None)), Box::new(M::N(1))));
    out
}

pub fn search(_tier: &str, _only: Option<&str>) {
    let uni = universe();
    let mut rep = Report::new("lterm", &format!("{} terms (3 variables, numbers, bool, string, proper/improper lists up to length 3 nested once, pairs): all pairs for ==/hash, all triples of a 24-term subset for transitivity, every list operation on every term", uni.len()));
    let vars: Vec<T> = vec![LTerm::var("x0"), LTerm::var("x1"), LTerm::var("x2")];
    let built: Vec<T> = uni.iter().map(|m| m.build(&vars)).collect();
    // a second, separately built copy: equality must not depend on sharing - not even for variables: each variable of
    // the copy lives in its OWN cell (a cloned handle made unique through as_mut), with the same VarID
    let vars2: Vec<T> = vars.iter().map(|v| { let mut c = v.clone(); let _ = AsMut::<proto_vulcan::lterm::LTermInner<U, E>>::as_mut(&mut c); c }).collect();
    let built2: Vec<T> = uni.iter().map(|m| m.build(&vars2)).collect();
    for (i, a) in uni.iter().enumerate() { for (j, b) in uni.iter().enumerate() {
        rep.case("eq", format!("{} == {}", a.show(), b.show()));
        let want = a.norm() == b.norm();
        let got = guard(std::panic::AssertUnwindSafe(|| (built[i] == built2[j], built2[j] == built[i])));
        match got {
            Ok((x, y)) => {
                if x != want { rep.fail("eq", format!("{} == {}", a.show(), b.show()), want.to_string(), x.to_string(), "structural"); }
                if x != y { rep.fail("eq", format!("{} == {}", a.show(), b.show()), "symmetric".into(), format!("{} vs {}", x, y), "symmetry"); }
                if x { rep.case("hash", format!("hash {} {}", a.show(), b.show())); if h(&built[i]) != h(&built2[j]) { rep.fail("hash", format!("{} , {}", a.show(), b.show()), "equal terms hash equally".into(), "different hashes".into(), "hash"); } }
            }
            Err(e) => rep.fail("eq", format!("{} == {}", a.show(), b.show()), "no panic".into(), e, "panic"),
        }
    } }
    let sub: Vec<usize> = (0..uni.len()).step_by(std::cmp::max(1, uni.len() / 24)).collect();
    for &i in &sub { for &j in &sub { for &k in &sub {
        rep.case("eq-transitive", format!("{} {} {}", i, j, k));
        if built[i] == built2[j] && built2[j] == built[k] && !(built[i] == built[k]) { rep.fail("eq-transitive", format!("{} , {} , {}", uni[i].show(), uni[j].show(), uni[k].show()), "transitive".into(), "a==b, b==c, a!=c".into(), "transitivity"); }
    } } }
    for (i, m) in uni.iter().enumerate() {
        let t = &built[i];
        let name = m.show();
        let r = guard(std::panic::AssertUnwindSafe(|| {
            let mut errs: Vec<(&'static str, String, String)> = vec![];
            let items: Vec<T> = m.items().iter().map(|e| e.build(&vars)).collect();
            let it: Vec<T> = t.iter().cloned().collect();
            if it != items { errs.push(("iter", format!("{:?}", items), format!("{:?}", it))); }
            let is_list = matches!(m, M::L(..));
            if t.is_list() != is_list { errs.push(("is_list", is_list.to_string(), t.is_list().to_string())); }
            let is_empty = matches!(m, M::L(es, None) if es.is_empty());
            if t.is_empty() != is_empty { errs.push(("is_empty", is_empty.to_string(), t.is_empty().to_string())); }
            let improper = matches!(m.norm(), M::L(ref es, Some(_)) if !es.is_empty());
            if t.is_improper() != improper { errs.push(("is_improper", improper.to_string(), t.is_improper().to_string())); }
            if let M::L(es, tl) = m.norm() { if !es.is_empty() {
                if t.head() != Some(&es[0].build(&vars)) { errs.push(("head", es[0].show(), format!("{:?}", t.head()))); }
                let rest = if es.len() == 1 { match &tl { None => M::L(vec![], None), Some(x) => (**x).clone() } } else { M::L(es[1..].to_vec(), tl.clone()) };
                if t.tail() != Some(&rest.build(&vars)) { errs.push(("tail", rest.show(), format!("{:?}", t.tail()))); }
            } else if t.head().is_some() || t.tail().is_some() { errs.push(("head", "None".into(), "Some".into())); } }
            else if t.head().is_some() || t.tail().is_some() { errs.push(("head", "None".into(), "Some".into())); }
            for (k, e) in items.iter().enumerate() { if is_list && &t[k] != e { errs.push(("index", format!("{:?}", e), format!("{:?}", t[k]))); } }
            if is_list { for e in &items { if !t.contains(e) { errs.push(("contains", "true".into(), "false".into())); } }
                         if t.contains(&LTerm::from(99isize)) { errs.push(("contains", "false".into(), "true".into())); } }
            // iter_mut visits exactly the elements that iter visits (an improper tail included), in the same order
            if is_list {
                let mut y = t.clone();
                let seen: Vec<T> = y.iter_mut().map(|e| e.clone()).collect();
                if seen != items { errs.push(("iter_mut", format!("{:?}", items), format!("{:?}", seen))); }
                let mut z = t.clone();
                for k in 0..items.len() { let got = guard(std::panic::AssertUnwindSafe(|| z[k].clone())); let mut z2 = t.clone(); let gm = guard(std::panic::AssertUnwindSafe(|| { let e: &mut T = &mut z2[k]; e.clone() })); if gm != got { errs.push(("index_mut", format!("{:?}", got), format!("{:?}", gm))); } }
                let _ = &mut z;
            }
            // collect / FromIterator and Extend on proper lists
            if let M::L(es, None) = m {
                let c: T = es.iter().map(|e| e.build(&vars)).collect();
                if &c != t { errs.push(("collect", name.clone(), format!("{:?}", c))); }
                let mut x = t.clone();
                x.extend(vec![LTerm::from(7isize), vars[2].clone()]);
                let mut want = es.clone(); want.push(M::N(7)); want.push(M::V(2));
                if x != M::L(want.clone(), None).build(&vars) { errs.push(("extend", M::L(want, None).show(), format!("{:?}", x))); }
                if &built2[i] != t { errs.push(("aliasing", "extend on a cloned handle: the original is unchanged".into(), "original changed".into())); }
                let shown = format!("{}", t);
                let want_s = format!("[{}]", es.iter().map(|e| format!("{}", e.build(&vars))).collect::<Vec<_>>().join(", "));
                if shown != want_s { errs.push(("display", want_s, shown)); }
                let mut y = t.clone();
                for e in y.iter_mut() { *e = LTerm::from(0isize); }
                if &built2[i] != t { errs.push(("aliasing", "iter_mut on a cloned handle: the original is unchanged".into(), "original changed".into())); }
                let zeros = M::L(vec![M::N(0); es.len()], None).build(&vars);
                if y != zeros { errs.push(("iter_mut", format!("{:?}", zeros), format!("{:?}", y))); }
            }
            errs
        }));
        rep.case("list-ops", format!("ops {}", name));
        match r {
            Ok(errs) => for (f, exp, got) in errs { rep.fail("list-ops", format!("{} on {}", f, name), exp, got, f); },
            Err(e) => rep.fail("list-ops", name, "no panic".into(), e, "panic"),
        }
    }
    rep.print();
}

pub fn replay(_input: &str) { search("quick", None); }
