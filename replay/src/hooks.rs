//! Executable twin of the `hooks` unit: an instrumented User type counts hook calls; after every
//! operation of every short history of ==, != and plusz over a few terms the balance
//! (#with_constraint - #take_constraint) must equal the size of the constraint store, and
//! process_extension must have been called exactly once per successful unification with exactly
//! the bindings that unification added.
use crate::util::*;
use proto_vulcan::engine::{DefaultEngine, Engine};
use proto_vulcan::lterm::LTerm;
use proto_vulcan::relation::clpz::plusz::PlusZConstraint;
use proto_vulcan::state::{Constraint, SMap, SResult, State};
use proto_vulcan::user::User;
use std::rc::Rc;

#[derive(Debug, Clone, Default)]
pub struct CountUser {
    with: i64,
    take: i64,
    ext_calls: i64,
    last_ext: Vec<(String, String)>,
}

impl User for CountUser {
    type UserTerm = ();
    type UserContext = ();
    fn process_extension<E: Engine<Self>>(mut state: State<Self, E>, extension: &SMap<Self, E>) -> SResult<Self, E> {
        state.user_state.ext_calls += 1;
        let mut v: Vec<(String, String)> = extension.iter().map(|(k, v)| (format!("{:?}", k), format!("{:?}", v))).collect();
        v.sort();
        state.user_state.last_ext = v;
        Ok(state)
    }
    fn with_constraint<E: Engine<Self>>(state: &mut State<Self, E>, _c: &Rc<dyn Constraint<Self, E>>) { state.user_state.with += 1; }
    fn take_constraint<E: Engine<Self>>(state: &mut State<Self, E>, _c: &Rc<dyn Constraint<Self, E>>) { state.user_state.take += 1; }
}

type U = CountUser;
type E = DefaultEngine<CountUser>;
type T = LTerm<U, E>;
type S = State<U, E>;

#[derive(Clone, Copy, Debug, PartialEq)]
enum Kind { Eq, Ne, Plus }

fn terms(vars: &[T]) -> Vec<(String, T)> {
    let n = |k: isize| -> T { LTerm::from(k) };
    let (x, y, z) = (vars[0].clone(), vars[1].clone(), vars[2].clone());
    vec![
        ("x".into(), x.clone()), ("y".into(), y.clone()), ("z".into(), z.clone()), ("5".into(), n(5)), ("6".into(), n(6)),
        ("[x,y]".into(), LTerm::from_vec(vec![x.clone(), y.clone()])),
        ("[5,6]".into(), LTerm::from_vec(vec![n(5), n(6)])),
        ("[5,y]".into(), LTerm::from_vec(vec![n(5), y.clone()])),
        ("[x,z]".into(), LTerm::from_vec(vec![x.clone(), z.clone()])),
    ]
}

/// one step; returns Err(description) on a lifecycle violation
fn step(st: S, kind: Kind, a: &T, b: &T, c: &T) -> Result<Option<S>, (String, &'static str)> {
    let before_calls = st.user_state.ext_calls;
    let before: Vec<(String, String)> = { let mut v: Vec<_> = st.smap_ref().iter().map(|(k, v)| (format!("{:?}", k), format!("{:?}", v))).collect(); v.sort(); v };
    let r = match kind {
        Kind::Eq => st.unify(a, b),
        Kind::Ne => st.disunify(a, b),
        Kind::Plus => if (a.is_var() || a.is_number()) && (b.is_var() || b.is_number()) && (c.is_var() || c.is_number()) { PlusZConstraint::new(a.clone(), b.clone(), c.clone()).run(st) } else { return Ok(Some(st)) },
    };
    let st = match r { Ok(s) => s, Err(_) => return Ok(None) };
    let stored = st.cstore_ref().iter().count() as i64;
    let bal = st.user_state.with - st.user_state.take;
    if bal != stored {
        return Err((format!("with={} take={} stored={}", st.user_state.with, st.user_state.take, stored), "balance"));
    }
    if kind == Kind::Eq {
        if st.user_state.ext_calls != before_calls + 1 {
            return Err((format!("process_extension called {} times for one successful unification", st.user_state.ext_calls - before_calls), "extension-calls"));
        }
        let mut after: Vec<(String, String)> = st.smap_ref().iter().map(|(k, v)| (format!("{:?}", k), format!("{:?}", v))).collect();
        after.sort();
        let delta: Vec<(String, String)> = after.iter().filter(|e| !before.contains(e)).cloned().collect();
        // bindings added by re-run constraints (plusz) come after the extension: the extension must be
        // contained in the delta and contain every binding that unify_rec itself made
        if !st.user_state.last_ext.iter().all(|e| delta.contains(e)) {
            return Err((format!("extension {:?} is not part of the new bindings {:?}", st.user_state.last_ext, delta), "extension-delta"));
        }
    } else if st.user_state.ext_calls != before_calls && kind == Kind::Ne {
        return Err(("process_extension called by a disequality".into(), "extension-calls"));
    }
    Ok(Some(st))
}

fn run_history(h: &[(Kind, usize, usize, usize)]) -> Result<(), (usize, String, &'static str)> {
    let vars: Vec<T> = vec![LTerm::var("x"), LTerm::var("y"), LTerm::var("z")];
    let ts = terms(&vars);
    let mut st: S = State::new(CountUser::default());
    for (i, (k, a, b, c)) in h.iter().enumerate() {
        match step(st, *k, &ts[*a].1, &ts[*b].1, &ts[*c].1) {
            Ok(Some(s)) => st = s,
            Ok(None) => return Ok(()),
            Err((msg, class)) => return Err((i, msg, class)),
        }
    }
    // the answer states: reification (the last goal of every query) replaces the store through State::with_cstore;
    // the balance must hold on what the caller of the query gets to see
    let q: T = LTerm::from_vec(vars.clone());
    let goal = proto_vulcan::state::reify::<U, E>(q);
    let mut solver: proto_vulcan::solver::Solver<U, E> = proto_vulcan::solver::Solver::new((), false);
    let mut stream = solver.start(&goal, st);
    let mut n = 0;
    while let Some(ans) = solver.next(&mut stream) {
        n += 1;
        let stored = ans.cstore_ref().iter().count() as i64;
        let bal = ans.user_state.with - ans.user_state.take;
        if bal != stored {
            return Err((h.len(), format!("answer state: with={} take={} stored={}", ans.user_state.with, ans.user_state.take, stored), "answer-balance"));
        }
        if n > 4 { break; }
    }
    Ok(())
}

fn show(h: &[(Kind, usize, usize, usize)]) -> String {
    let vars: Vec<T> = vec![LTerm::var("x"), LTerm::var("y"), LTerm::var("z")];
    let ts = terms(&vars);
    h.iter().map(|(k, a, b, c)| match k { Kind::Eq => format!("{}=={}", ts[*a].0, ts[*b].0), Kind::Ne => format!("{}!={}", ts[*a].0, ts[*b].0), Kind::Plus => format!("plusz({},{},{})", ts[*a].0, ts[*b].0, ts[*c].0) }).collect::<Vec<_>>().join(";")
}

pub fn search(tier: &str, _only: Option<&str>) {
    let len = if tier == "thorough" { 4 } else { 3 };
    let nt = 9usize;
    // single operations
    let mut ops: Vec<(Kind, usize, usize, usize)> = vec![];
    for a in 0..nt { for b in 0..nt { if a < b { ops.push((Kind::Eq, a, b, 0)); } if a != b { ops.push((Kind::Ne, a, b, 0)); } } }
    for (a, b, c) in [(0, 1, 2), (0, 3, 2), (3, 4, 0), (0, 0, 1)] { ops.push((Kind::Plus, a, b, c)); }
    let mut rep = Report::new("hooks", &format!("all histories of up to {} operations from {} (==, != over 9 terms on 3 variables; 4 plusz constraints)", len, ops.len()));
    // quick: all histories of length <= 2, plus length-3 histories whose first two are disequalities
    let mut stack: Vec<Vec<(Kind, usize, usize, usize)>> = vec![vec![]];
    while let Some(h) = stack.pop() {
        if !h.is_empty() {
            rep.case("lifecycle", show(&h));
            let hh = h.clone();
            match guard(move || run_history(&hh)) {
                Ok(Ok(())) => {}
                Ok(Err((i, msg, class))) => rep.fail("lifecycle", show(&h), "balance == store size; one process_extension per successful ==".into(), format!("after step {}: {}", i + 1, msg), class),
                Err(e) => rep.fail("lifecycle", show(&h), "no panic".into(), e, "panic"),
            }
        }
        if h.len() < len {
            for op in &ops {
                if h.len() >= 2 && tier != "thorough" && !(h.iter().all(|o| o.0 == Kind::Ne)) { continue; }
                if h.len() >= 2 && tier == "thorough" && h.iter().filter(|o| o.0 == Kind::Ne).count() == 0 { continue; }
                if h.len() >= 3 && !(h.iter().all(|o| o.0 == Kind::Ne)) { continue; }
                let mut n = h.clone();
                n.push(*op);
                stack.push(n);
            }
        }
    }
    rep.print();
}

pub fn replay(input: &str) {
    // input: "lifecycle a!=b;c==d;..."  – histories are re-parsed by name
    let vars: Vec<T> = vec![LTerm::var("x"), LTerm::var("y"), LTerm::var("z")];
    let ts = terms(&vars);
    let idx = |s: &str| ts.iter().position(|t| t.0 == s).unwrap_or(0);
    let body = input.splitn(2, ' ').nth(1).unwrap_or("");
    let mut h = vec![];
    for op in body.split(';') {
        if let Some(p) = op.find("!=") { h.push((Kind::Ne, idx(&op[..p]), idx(&op[p + 2..]), 0)); }
        else if let Some(p) = op.find("==") { h.push((Kind::Eq, idx(&op[..p]), idx(&op[p + 2..]), 0)); }
        else if op.starts_with("plusz(") { let a: Vec<&str> = op[6..op.len() - 1].split(',').collect(); h.push((Kind::Plus, idx(a[0]), idx(a[1]), idx(a[2]))); }
    }
    let mut rep = Report::new("hooks", "replay");
    rep.case("lifecycle", show(&h));
    match run_history(&h) {
        Ok(()) => {}
        Err((i, msg, class)) => rep.fail("lifecycle", show(&h), "balance == store size".into(), format!("after step {}: {}", i + 1, msg), class),
    }
    rep.print();
}
