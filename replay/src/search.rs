//! Executable twin of the `stream` unit: goal trees built through the public operator API
//! (no macros), run by the real solver, against a small reference interpreter.
//!   DFS mode (everything inside `dfs { }`): exact answer sequence (C05).
//!   BFS mode: answer multiset (C06), committed choice (C08), branch fairness prefix (C07).
//! This is the bounded stand-in for the leaves of that unit: Conj/DFSConj/InferredConj::from_*,
//! Conde/Conda/Condu::from_conjunctions, onceo, dfs, Solver::start, Goal::solve, Eq::solve.
use crate::util::*;
use proto_vulcan::engine::DefaultEngine;
use proto_vulcan::goal::{AnyGoal, DFSGoal, Goal};
use proto_vulcan::lterm::LTerm;
use proto_vulcan::operator::conde::Conde;
use proto_vulcan::operator::conj::{Conj, DFSConj, InferredConj};
use proto_vulcan::operator::disj::{DFSDisj, Disj};
use proto_vulcan::operator::{conda, condu, dfs, onceo, anyo, OperatorParam, ClosureOperatorParam, ForOperatorParam};
use proto_vulcan::operator::everyg::everyg;
use proto_vulcan::operator::closure::Closure;
use proto_vulcan::relation::never::never;
use proto_vulcan::relation::always::always;
use proto_vulcan::relation::eq::Eq;
use proto_vulcan::relation::diseq::Diseq;
use proto_vulcan::solver::Solver;
use proto_vulcan::state::State;
use proto_vulcan::user::DefaultUser;
use proto_vulcan::GoalCast;

type U = DefaultUser;
type E = DefaultEngine<DefaultUser>;
type T = LTerm<U, E>;
const NV: usize = 3;

#[derive(Clone, Copy, Debug, PartialEq, std::cmp::Eq, Hash, PartialOrd, Ord)]
pub enum A { V(usize), K(isize) }
impl A { fn show(&self) -> String { match self { A::V(v) => format!("x{}", v), A::K(k) => k.to_string() } } }

#[derive(Clone, Debug, PartialEq)]
pub enum G {
    /// tuple disequality: (a1,..,an) != (b1,..,bn), n = 1 or 2
    Ne(Vec<(A, A)>),
    Eq(usize, isize),
    EqV(usize, usize),
    Succ,
    Fail,
    Conj(u8, Vec<G>),            // form: 0 from_array, 1 from_vec, 2 from_conjunctions, 3 InferredConj::from_array
    Disj(u8, Vec<Vec<G>>),       // form: 0 Conde::from_conjunctions, 1 (D)Disj::from_conjunctions
    Conda(Vec<Vec<G>>),
    Condu(Vec<Vec<G>>),
    Onceo(Vec<G>),
    /// onceo with all its goals in ONE inner slice (`onceo { [g1, g2] }`); Onceo is the macro form `onceo { g1, g2 }` (one slice per goal)
    OnceoFlat(Vec<G>),
    /// `for x in coll { body }` (C12): the body refers to the loop variable as variable number 3
    For(Vec<A>, Box<G>),
}

impl G {
    fn show(&self) -> String {
        let cl = |c: &Vec<Vec<G>>| c.iter().map(|x| format!("[{}]", x.iter().map(|g| g.show()).collect::<Vec<_>>().join(","))).collect::<Vec<_>>().join(" ");
        match self {
            G::Ne(ps) => format!("ne<{}>", ps.iter().map(|(a, b)| format!("{}:{}", a.show(), b.show())).collect::<Vec<_>>().join(";")),
            G::Eq(v, k) => format!("x{}={}", v, k), G::EqV(a, b) => format!("x{}=x{}", a, b), G::Succ => "T".into(), G::Fail => "F".into(),
            G::Conj(f, gs) => format!("and{}({})", f, gs.iter().map(|g| g.show()).collect::<Vec<_>>().join(",")),
            G::Disj(f, c) => format!("or{}({})", f, cl(c)), G::Conda(c) => format!("conda({})", cl(c)), G::Condu(c) => format!("condu({})", cl(c)),
            G::Onceo(gs) => format!("onceo({})", gs.iter().map(|g| g.show()).collect::<Vec<_>>().join(",")),
            G::OnceoFlat(gs) => format!("onceoflat({})", gs.iter().map(|g| g.show()).collect::<Vec<_>>().join(",")),
            G::For(c, b) => format!("for<{}>({})", c.iter().map(|a| a.show()).collect::<Vec<_>>().join(";"), b.show()),
        }
    }
    fn has_for(&self) -> bool {
        match self {
            G::For(..) => true,
            G::Conj(_, gs) | G::Onceo(gs) | G::OnceoFlat(gs) => gs.iter().any(|g| g.has_for()),
            G::Disj(_, c) | G::Conda(c) | G::Condu(c) => c.iter().any(|x| x.iter().any(|g| g.has_for())),
            _ => false,
        }
    }
    /// the body of a `for` with the loop variable (number 3) replaced by the element a
    fn subst(&self, a: A) -> G {
        let o = |x: &A| if *x == A::V(3) { a } else { *x };
        let l = |gs: &Vec<G>| -> Vec<G> { gs.iter().map(|g| g.subst(a)).collect() };
        let cl = |c: &Vec<Vec<G>>| -> Vec<Vec<G>> { c.iter().map(|x| l(x)).collect() };
        match self {
            G::Ne(ps) => G::Ne(ps.iter().map(|(x, y)| (o(x), o(y))).collect()),
            G::Eq(v, k) => if *v == 3 { match a { A::K(c) => if c == *k { G::Succ } else { G::Fail }, A::V(w) => G::Eq(w, *k) } } else { G::Eq(*v, *k) },
            G::EqV(x, y) => match (o(&A::V(*x)), o(&A::V(*y))) {
                (A::V(p), A::V(q)) => G::EqV(p, q), (A::V(p), A::K(c)) | (A::K(c), A::V(p)) => G::Eq(p, c), (A::K(c), A::K(d)) => if c == d { G::Succ } else { G::Fail } },
            G::Succ => G::Succ, G::Fail => G::Fail,
            G::Conj(f, gs) => G::Conj(*f, l(gs)), G::Disj(f, c) => G::Disj(*f, cl(c)), G::Conda(c) => G::Conda(cl(c)), G::Condu(c) => G::Condu(cl(c)),
            G::Onceo(gs) => G::Onceo(l(gs)), G::OnceoFlat(gs) => G::OnceoFlat(l(gs)),
            G::For(c, b) => G::For(c.iter().map(|x| o(x)).collect(), b.clone()),
        }
    }
    /// the goals `for` stands for: the body once per element; InferredConj::from_iter puts each new goal IN FRONT, so the
    /// conjunction runs them in reverse order of the collection (which only the depth-first answer ORDER can see)
    fn unrolled(c: &Vec<A>, b: &G) -> Vec<G> { c.iter().rev().map(|a| b.subst(*a)).collect() }
    fn bfs_only(&self) -> bool {
        match self {
            G::Conda(_) | G::Condu(_) | G::Onceo(_) | G::OnceoFlat(_) => true,
            G::For(_, b) => b.bfs_only(),
            G::Conj(_, gs) => gs.iter().any(|g| g.bfs_only()),
            G::Disj(_, c) => c.iter().any(|x| x.iter().any(|g| g.bfs_only())),
            _ => false,
        }
    }
}

// ---- reference semantics: substitution = union-find over NV variables + optional value per class
#[derive(Clone, Debug, PartialEq, std::cmp::Eq, Hash, PartialOrd, Ord)]
pub struct Sub { parent: [usize; NV], val: [Option<isize>; NV], ne: Vec<Vec<(A, A)>> }
impl Sub {
    fn new() -> Sub { Sub { parent: [0, 1, 2], val: [None; NV], ne: vec![] } }
    /// are the two operands identical under the substitution?
    fn same(&self, a: A, b: A) -> bool {
        match (a, b) {
            (A::K(x), A::K(y)) => x == y,
            (A::V(v), A::K(k)) | (A::K(k), A::V(v)) => self.val[self.find(v)] == Some(k),
            (A::V(v), A::V(w)) => { let (rv, rw) = (self.find(v), self.find(w)); rv == rw || (self.val[rv].is_some() && self.val[rv] == self.val[rw]) }
        }
    }
    /// a tuple disequality is violated exactly when every pair has become identical
    fn consistent(self) -> Option<Sub> { if self.ne.iter().any(|c| c.iter().all(|(a, b)| self.same(*a, *b))) { None } else { Some(self) } }
    fn post_ne(&self, c: &Vec<(A, A)>) -> Option<Sub> { let mut s = self.clone(); s.ne.push(c.clone()); s.consistent() }
    fn find(&self, mut a: usize) -> usize { while self.parent[a] != a { a = self.parent[a]; } a }
    fn eq(&self, v: usize, k: isize) -> Option<Sub> {
        let r = self.find(v);
        match self.val[r] { Some(x) => if x == k { Some(self.clone()) } else { None }, None => { let mut s = self.clone(); s.val[r] = Some(k); s.consistent() } }
    }
    fn eqv(&self, a: usize, b: usize) -> Option<Sub> {
        let (ra, rb) = (self.find(a), self.find(b));
        if ra == rb { return Some(self.clone()); }
        match (self.val[ra], self.val[rb]) {
            (Some(x), Some(y)) => if x == y { let mut s = self.clone(); s.parent[ra] = rb; s.consistent() } else { None },
            (Some(x), None) => { let mut s = self.clone(); s.parent[rb] = ra; s.val[ra] = Some(x); s.consistent() }
            _ => { let mut s = self.clone(); s.parent[ra] = rb; s.consistent() }
        }
    }
    /// canonical observable: for each variable either its value or the least variable it is aliased to, and (last
    /// element) the set of ground instances over the universe {1, 2, 3, 9} that the attached disequalities allow
    fn observe(&self) -> Vec<String> {
        let mut o: Vec<String> = (0..NV).map(|v| { let r = self.find(v); match self.val[r] { Some(k) => k.to_string(), None => format!("_{}", (0..NV).filter(|w| self.find(*w) == r).min().unwrap()) } }).collect();
        let mut mask = String::new();
        for asg in ground_assignments() {
            // the assignment must agree with the answer's bindings and aliasing ...
            let fits = (0..NV).all(|v| { let r = self.find(v); (match self.val[r] { Some(k) => asg[v] == k, None => true }) && asg[v] == asg[r] });
            // ... and must not make any attached disequality false
            let val = |a: &A| match a { A::K(k) => *k, A::V(v) => asg[*v] };
            let ok = fits && !self.ne.iter().any(|c| c.iter().all(|(a, b)| val(a) == val(b)));
            mask.push(if ok { '1' } else { '0' });
        }
        o.push(mask);
        o
    }
}

/// depth-first, left-to-right answer sequence of g from s. For conda/condu/onceo the reference is
/// the soft-cut / committed-choice semantics over this depth-first order.
fn sem(g: &G, s: &Sub) -> Vec<Sub> {
    match g {
        G::Ne(c) => s.post_ne(c).into_iter().collect(),
        G::Eq(v, k) => s.eq(*v, *k).into_iter().collect(),
        G::EqV(a, b) => s.eqv(*a, *b).into_iter().collect(),
        G::Succ => vec![s.clone()],
        G::Fail => vec![],
        G::Conj(_, gs) => sem_conj(gs, s),
        G::Disj(_, cs) => cs.iter().flat_map(|c| sem_conj(c, s)).collect(),
        G::Conda(cs) => { for c in cs { if c.is_empty() { continue; } let h = sem(&c[0], s); if !h.is_empty() { return h.iter().flat_map(|a| sem_conj(&c[1..].to_vec(), a)).collect(); } } vec![] }
        G::Condu(cs) => { for c in cs { if c.is_empty() { continue; } let h = sem(&c[0], s); if !h.is_empty() { return sem_conj(&c[1..].to_vec(), &h[0]); } } vec![] }
        G::Onceo(gs) | G::OnceoFlat(gs) => sem_conj(gs, s).into_iter().take(1).collect(),
        G::For(c, b) => sem_conj(&G::unrolled(c, b), s),
    }
}
fn sem_conj(gs: &[G], s: &Sub) -> Vec<Sub> {
    let mut cur = vec![s.clone()];
    for g in gs { cur = cur.iter().flat_map(|a| sem(g, a)).collect(); }
    cur
}
/// does evaluating g from s ever commit to "the first" of several distinct head answers?  Under
/// interleaving there is no reference "first", so such programs are only sanity-checked.
fn ambiguous(g: &G, s: &Sub) -> bool {
    let distinct = |v: &Vec<Sub>| { let mut d = v.clone(); d.sort(); d.dedup(); d.len() };
    match g {
        G::Condu(cs) => { for c in cs { if c.is_empty() { continue; } if ambiguous(&c[0], s) { return true; } let h = sem(&c[0], s); if !h.is_empty() { return distinct(&h) > 1 || amb_conj(&c[1..], &h[0]); } } false }
        G::Onceo(gs) | G::OnceoFlat(gs) => distinct(&sem_conj(gs, s)) > 1 || amb_conj(gs, s),
        G::Conj(_, gs) => amb_conj(gs, s),
        G::Disj(_, cs) => cs.iter().any(|c| amb_conj(c, s)),
        G::Conda(cs) => { for c in cs { if c.is_empty() { continue; } if ambiguous(&c[0], s) { return true; } let h = sem(&c[0], s); if !h.is_empty() { return h.iter().any(|a| amb_conj(&c[1..], a)); } } false }
        G::For(c, b) => amb_conj(&G::unrolled(c, b), s),
        _ => false,
    }
}
fn amb_conj(gs: &[G], s: &Sub) -> bool {
    let mut cur = vec![s.clone()];
    for g in gs { if cur.iter().any(|a| ambiguous(g, a)) { return true; } cur = cur.iter().flat_map(|a| sem(g, a)).collect(); }
    false
}

// ---- building real goals
fn ne_terms(c: &Vec<(A, A)>, vars: &[T]) -> (T, T) {
    let t = |a: &A| -> T { match a { A::V(v) => vars[*v].clone(), A::K(k) => LTerm::from(*k) } };
    if c.len() == 1 { (t(&c[0].0), t(&c[0].1)) } else { (LTerm::from_vec(c.iter().map(|p| t(&p.0)).collect()), LTerm::from_vec(c.iter().map(|p| t(&p.1)).collect())) }
}
fn build_bfs(g: &G, vars: &[T]) -> Goal<U, E> {
    let sub = |gs: &Vec<G>| -> Vec<Goal<U, E>> { gs.iter().map(|x| build_bfs(x, vars)).collect() };
    match g {
        G::Ne(c) => { let (l, r) = ne_terms(c, vars); Diseq::new::<Goal<U, E>>(l, r).cast_into() }
        G::Eq(v, k) => Eq::new::<Goal<U, E>>(vars[*v].clone(), LTerm::from(*k)).cast_into(),
        G::EqV(a, b) => Eq::new::<Goal<U, E>>(vars[*a].clone(), vars[*b].clone()).cast_into(),
        G::Succ => Goal::succeed(),
        G::Fail => Goal::fail(),
        G::Conj(form, gs) => { let v = sub(gs); match form { 0 => Conj::from_array(&v), 1 => Conj::from_vec(v), 2 => Conj::from_conjunctions(&[&v[..]]), _ => InferredConj::<U, E, Goal<U, E>>::from_array(&v).cast_into() } }
        G::Disj(form, cs) => { let vs: Vec<Vec<Goal<U, E>>> = cs.iter().map(|c| sub(c)).collect(); let refs: Vec<&[Goal<U, E>]> = vs.iter().map(|v| &v[..]).collect();
            match form { 0 => Conde::from_conjunctions(&refs).cast_into(), _ => Disj::from_conjunctions(&refs) } }
        G::Conda(cs) => { let vs: Vec<Vec<Goal<U, E>>> = cs.iter().map(|c| sub(c)).collect(); let refs: Vec<&[Goal<U, E>]> = vs.iter().map(|v| &v[..]).collect(); conda(OperatorParam::new(&refs)) }
        G::Condu(cs) => { let vs: Vec<Vec<Goal<U, E>>> = cs.iter().map(|c| sub(c)).collect(); let refs: Vec<&[Goal<U, E>]> = vs.iter().map(|v| &v[..]).collect(); condu(OperatorParam::new(&refs)) }
        G::OnceoFlat(gs) => { let v = sub(gs); let refs: Vec<&[Goal<U, E>]> = vec![&v[..]]; onceo(OperatorParam::new(&refs)) }
        G::Onceo(gs) => { let v = sub(gs); let refs: Vec<&[Goal<U, E>]> = v.iter().map(|g| std::slice::from_ref(g)).collect(); onceo(OperatorParam::new(&refs)) }
        G::For(c, b) => {
            let coll: Vec<T> = c.iter().map(|a| match a { A::V(v) => vars[*v].clone(), A::K(k) => LTerm::from(*k) }).collect();
            let (body, outer): (G, Vec<T>) = ((**b).clone(), vars[..NV].to_vec());
            everyg::<Vec<T>, U, E, Goal<U, E>>(ForOperatorParam::new(coll, Box::new(move |x: T| { let mut vs = outer.clone(); vs.push(x); build_bfs(&body, &vs) }))).cast_into()
        }
    }
}
fn build_dfs(g: &G, vars: &[T]) -> DFSGoal<U, E> {
    let sub = |gs: &Vec<G>| -> Vec<DFSGoal<U, E>> { gs.iter().map(|x| build_dfs(x, vars)).collect() };
    match g {
        G::Ne(c) => { let (l, r) = ne_terms(c, vars); Diseq::new::<DFSGoal<U, E>>(l, r).cast_into() }
        G::Eq(v, k) => Eq::new::<DFSGoal<U, E>>(vars[*v].clone(), LTerm::from(*k)).cast_into(),
        G::EqV(a, b) => Eq::new::<DFSGoal<U, E>>(vars[*a].clone(), vars[*b].clone()).cast_into(),
        G::Succ => DFSGoal::succeed(),
        G::Fail => DFSGoal::fail(),
        G::Conj(form, gs) => { let v = sub(gs); match form { 0 => DFSConj::from_array(&v), 1 => DFSConj::from_vec(v), 2 => DFSConj::from_conjunctions(&[&v[..]]), _ => InferredConj::<U, E, DFSGoal<U, E>>::from_array(&v).cast_into() } }
        G::Disj(form, cs) => { let vs: Vec<Vec<DFSGoal<U, E>>> = cs.iter().map(|c| sub(c)).collect(); let refs: Vec<&[DFSGoal<U, E>]> = vs.iter().map(|v| &v[..]).collect();
            match form { 0 => Conde::from_conjunctions(&refs).cast_into(), _ => DFSDisj::from_conjunctions(&refs) } }
        G::For(c, b) => {
            let coll: Vec<T> = c.iter().map(|a| match a { A::V(v) => vars[*v].clone(), A::K(k) => LTerm::from(*k) }).collect();
            let (body, outer): (G, Vec<T>) = ((**b).clone(), vars[..NV].to_vec());
            everyg::<Vec<T>, U, E, DFSGoal<U, E>>(ForOperatorParam::new(coll, Box::new(move |x: T| { let mut vs = outer.clone(); vs.push(x); build_dfs(&body, &vs) }))).cast_into()
        }
        _ => unreachable!(),
    }
}

const UNIVERSE: [isize; 4] = [1, 2, 3, 9];
fn ground_assignments() -> Vec<[isize; NV]> {
    let mut v = vec![];
    for a in UNIVERSE { for b in UNIVERSE { for c in UNIVERSE { v.push([a, b, c]); } } }
    v
}
fn observe_state(st: &State<U, E>, vars: &[T]) -> Vec<String> {
    let w: Vec<T> = vars.iter().map(|v| st.smap_ref().walk(v).clone()).collect();
    let mut o: Vec<String> = (0..NV).map(|i| match w[i].get_number() { Some(k) => k.to_string(), None => format!("_{}", (0..NV).filter(|j| w[*j] == w[i]).min().unwrap()) }).collect();
    // C02: the ground instances of the answer are the assignments that agree with its bindings and satisfy the
    // disequalities attached to it (read from the real constraint store)
    let ground = |t: &T, asg: &[isize; NV]| -> Option<isize> {
        let tw = st.smap_ref().walk(t);
        if let Some(k) = tw.get_number() { return Some(k); }
        vars.iter().position(|v| v == tw).map(|i| asg[i])
    };
    let mut mask = String::new();
    for asg in ground_assignments() {
        let fits = (0..NV).all(|i| match w[i].get_number() { Some(k) => asg[i] == k, None => { let r = (0..NV).filter(|j| w[*j] == w[i]).min().unwrap(); asg[i] == asg[r] } });
        let mut ok = fits;
        if ok {
            for c in st.cstore_ref().iter() {
                if let Some(d) = c.downcast_ref::<proto_vulcan::relation::diseq::DisequalityConstraint<U, E>>() {
                    // a (tuple) disequality is false exactly when every pair is equal
                    let all_equal = d.smap_ref().iter().all(|(k, v)| match (ground(k, &asg), ground(v, &asg)) { (Some(x), Some(y)) => x == y, _ => false });
                    if all_equal { ok = false; }
                }
            }
        }
        mask.push(if ok { '1' } else { '0' });
    }
    o.push(mask);
    o
}

fn run_real(g: &G, mode_dfs: bool, limit: usize) -> Vec<Vec<String>> {
    let vars: Vec<T> = vec![LTerm::var("x0"), LTerm::var("x1"), LTerm::var("x2")];
    let goal: Goal<U, E> = if mode_dfs {
        // a top-level conjunction in construction form 2 is handed to `dfs` as ONE clause with several goals
        // (`dfs { [g1, g2, ..] }`), in form 1 as one clause per goal (`dfs { g1, g2, .. }`, what the macro emits),
        // every other goal as one clause with one goal
        let clauses: Vec<Vec<DFSGoal<U, E>>> = match g {
            G::Conj(2, gs) => vec![gs.iter().map(|x| build_dfs(x, &vars)).collect()],
            G::Conj(1, gs) => gs.iter().map(|x| vec![build_dfs(x, &vars)]).collect(),
            _ => vec![vec![build_dfs(g, &vars)]],
        };
        let refs: Vec<&[DFSGoal<U, E>]> = clauses.iter().map(|c| &c[..]).collect();
        dfs::<U, E, Goal<U, E>>(OperatorParam::new(&refs)).cast_into()
    } else { build_bfs(g, &vars) };
    let mut solver: Solver<U, E> = Solver::new((), false);
    let mut stream = solver.start(&goal, State::new(DefaultUser::new()));
    let mut out = vec![];
    while out.len() < limit {
        match solver.next(&mut stream) { Some(st) => out.push(observe_state(&st, &vars)), None => break }
    }
    // fused: keeps returning None
    if out.len() < limit { assert!(solver.next(&mut stream).is_none() && solver.next(&mut stream).is_none(), "not fused"); }
    out
}

fn check(rep: &mut Report, g: &G) {
    let exp: Vec<Vec<String>> = sem(g, &Sub::new()).iter().map(|s| s.observe()).collect();
    let inp = g.show();
    if !g.bfs_only() {
        rep.case("dfs-order", format!("dfs {}", inp));
        let gg = g.clone();
        match guard_timeout(move || run_real(&gg, true, 10_000), 10) {
            Err(e) if e == "TIMEOUT" => { rep.fail("dfs-order", inp.clone(), format!("{:?}", exp), "no result within 10 s: the search diverges on a finite program".into(), "diverges"); rep.print(); std::process::exit(0); }
            Ok(got) => if got != exp {
                rep.fail("dfs-order", inp.clone(), format!("{:?}", exp), format!("{:?}", got), "order");
                let (mut a, mut b) = (got.clone(), exp.clone());
                a.sort(); b.sort();
                if a != b { rep.fail("dfs-multiset", inp.clone(), format!("{:?}", b), format!("{:?}", a), "multiset"); }
            },
            Err(e) => rep.fail("dfs-order", inp.clone(), format!("{:?}", exp), e, "panic"),
        }
    }
    rep.case("bfs-multiset", format!("bfs {}", inp));
    if g.has_for() { rep.case("for-everyg", format!("bfs {}", inp)); }
    let gg = g.clone();
    match guard_timeout(move || run_real(&gg, false, 10_000), 10) {
        Err(e) if e == "TIMEOUT" => { rep.fail("bfs-multiset", inp.clone(), format!("{:?}", exp), "no result within 10 s: the search diverges on a finite program".into(), "diverges"); rep.print(); std::process::exit(0); }
        Ok(got) => {
            // C09 (deterministic): a second run of the same goal - fresh variables, fresh hash states in every
            // HashMap/HashSet of the new State - yields the same SEQUENCE of answers
            rep.case("determinism", format!("bfs {}", inp));
            let gg2 = g.clone();
            if let Ok(again) = guard_timeout(move || run_real(&gg2, false, 10_000), 10) {
                if again != got {
                    let (mut a, mut b) = (got.clone(), again.clone()); a.sort(); b.sort();
                    rep.fail("determinism", inp.clone(), format!("{:?}", got), format!("{:?}", again), if a == b { "order" } else { "answers" });
                }
            }
            let (mut a, mut b) = (got.clone(), exp.clone());
            a.sort(); b.sort();
            if a != b {
                if ambiguous(g, &Sub::new()) {
                    // committed choice over an interleaved head with several distinct answers: no reference
                    // "first" exists under interleaving; not compared
                    rep.case("skipped-ambiguous-commit", format!("amb {}", inp));
                } else {
                    let f = if g.bfs_only() { "committed-choice" } else { "bfs-multiset" };
                    rep.fail(f, inp.clone(), format!("{:?}", b), format!("{:?}", a), "multiset");
                    // C12: the program contains a `for`; the reference has it unrolled into the explicit conjunction
                    if g.has_for() { rep.fail("for-everyg", inp.clone(), format!("{:?}", b), format!("{:?}", a), "multiset"); }
                }
            }
        }
        Err(e) => rep.fail("bfs-multiset", inp.clone(), format!("{:?}", exp), e, "panic"),
    }
}

struct Rng(u64);
impl Rng { fn next(&mut self) -> u64 { self.0 ^= self.0 << 13; self.0 ^= self.0 >> 7; self.0 ^= self.0 << 17; self.0 } fn below(&mut self, n: usize) -> usize { (self.next() % n as u64) as usize } }

fn leaf(r: &mut Rng) -> G {
    let mut op = |r: &mut Rng| if r.below(2) == 0 { A::V(r.below(NV)) } else { A::K((r.below(3) + 1) as isize) };
    match r.below(13) {
        0 => G::Succ, 1 => G::Fail, 2 | 3 => G::EqV(r.below(NV), r.below(NV)),
        10 | 11 => G::Ne(vec![(A::V(r.below(NV)), op(r))]),
        12 => G::Ne(vec![(A::V(r.below(NV)), op(r)), (A::V(r.below(NV)), op(r))]),
        _ => G::Eq(r.below(NV), (r.below(3) + 1) as isize) }
}
/// `for x in coll { body }`: 0..3 elements (variables and constants), a body that uses the loop variable (number 3)
fn for_goal(r: &mut Rng) -> G {
    let op = |r: &mut Rng| if r.below(2) == 0 { A::K((r.below(3) + 1) as isize) } else { A::V(r.below(NV)) };
    let coll: Vec<A> = (0..r.below(4)).map(|_| op(r)).collect();
    let atom = |r: &mut Rng| match r.below(4) { 0 => G::EqV(3, r.below(NV)), 1 => G::Ne(vec![(A::V(3), op(r))]), 2 => G::Ne(vec![(A::V(r.below(NV)), A::V(3))]), _ => G::Eq(3, (r.below(3) + 1) as isize) };
    let body = match r.below(4) {
        0 | 1 => atom(r),
        2 => G::Disj(r.below(2) as u8, vec![vec![atom(r)], vec![leaf(r)]]),
        _ => G::Conj(r.below(4) as u8, vec![atom(r), leaf(r)]),
    };
    G::For(coll, Box::new(body))
}
fn gen(r: &mut Rng, depth: usize, bfs: bool) -> G {
    if depth == 0 { return leaf(r); }
    let n = if bfs { 9 } else { 6 };
    match r.below(n) {
        0 | 1 => { let k = 1 + r.below(3); G::Conj(r.below(4) as u8, (0..k).map(|_| gen(r, depth - 1, bfs)).collect()) }
        2 | 3 | 4 => { let k = 1 + r.below(3); G::Disj(r.below(2) as u8, (0..k).map(|_| { let m = 1 + r.below(3); (0..m).map(|_| gen(r, depth - 1, bfs)).collect() }).collect()) }
        5 => if r.below(3) == 0 { for_goal(r) } else { leaf(r) },
        6 => { let k = 1 + r.below(3); G::Conda((0..k).map(|_| { let m = 1 + r.below(3); (0..m).map(|_| gen(r, depth - 1, bfs)).collect() }).collect()) }
        7 => { let k = 1 + r.below(3); G::Condu((0..k).map(|_| { let m = 1 + r.below(3); (0..m).map(|_| gen(r, depth - 1, bfs)).collect() }).collect()) }
        _ => { let k = 1 + r.below(3); let gs: Vec<G> = (0..k).map(|_| gen(r, depth - 1, bfs)).collect(); if r.below(3) == 0 { G::OnceoFlat(gs) } else { G::Onceo(gs) } }
    }
}


// ---- C07: fairness of interleaving disjunction, on a bounded prefix of the answer stream
fn forever() -> Goal<U, E> {
    // a silent diverger that is pure recursion through a closure
    // (the body is a one-goal conjunction, as the closure macro builds it: each unfolding pauses once)
    Closure::new(ClosureOperatorParam::new(Box::new(|| Conj::from_array(&[forever()])))).cast_into()
}
// silent divergers written with the closure MACRO (what a user writes): the macro wraps the body so that every
// unfolding pauses once; a body that is a bare recursive call is the sensitive case
fn nevero_macro() -> Goal<U, E> {
    use proto_vulcan::prelude::*;
    proto_vulcan_closure!(nevero_macro())
}
/// scenarios that can take the whole process down (stack overflow) run in a child process: `pv-replay replay search "child <name>"`
fn child_scenario(name: &str) -> Result<(), String> {
    use proto_vulcan::prelude::*;
    let run = |g: fn(&[T]) -> Goal<U, E>, n: usize, want: &str| -> Result<(), String> {
        let got = prefix(g, n);
        if got.len() == n && got.iter().all(|a| a[0] == want) { Ok(()) } else { Err(format!("prefix {:?}", got.iter().map(|a| a[0].clone()).collect::<Vec<_>>())) }
    };
    match name {
        "conde{nevero_macro(),x0=1}" => run(|v| { let x0 = v[0].clone(); proto_vulcan!(conde { nevero_macro(), x0 == 1 }) }, 1, "1"),
        "conde{x0=1,nevero_macro()}" => run(|v| { let x0 = v[0].clone(); proto_vulcan!(conde { x0 == 1, nevero_macro() }) }, 1, "1"),
        "conde{nevero_macro(),[always(),x0=1]}" => run(|v| { let x0 = v[0].clone(); proto_vulcan!(conde { nevero_macro(), [always(), x0 == 1] }) }, 4, "1"),
        _ => Err("unknown child scenario".into()),
    }
}
const CHILD_SCENARIOS: [&str; 3] = ["conde{nevero_macro(),x0=1}", "conde{x0=1,nevero_macro()}", "conde{nevero_macro(),[always(),x0=1]}"];
fn prefix(goal_of: fn(&[T]) -> Goal<U, E>, n: usize) -> Vec<Vec<String>> {
    let vars: Vec<T> = vec![LTerm::var("x0"), LTerm::var("x1"), LTerm::var("x2")];
    let goal = goal_of(&vars);
    let mut solver: Solver<U, E> = Solver::new((), false);
    let mut stream = solver.start(&goal, State::new(DefaultUser::new()));
    let mut out = vec![];
    while out.len() < n { match solver.next(&mut stream) { Some(st) => out.push(observe_state(&st, &vars)), None => break } }
    out
}
fn eqk(vars: &[T], v: usize, k: isize) -> Goal<U, E> { Eq::new::<Goal<U, E>>(vars[v].clone(), LTerm::from(k)).cast_into() }
fn cde(cs: Vec<Vec<Goal<U, E>>>) -> Goal<U, E> { let refs: Vec<&[Goal<U, E>]> = cs.iter().map(|v| &v[..]).collect(); Conde::from_conjunctions(&refs).cast_into() }
fn lp(gs: Vec<Goal<U, E>>) -> Goal<U, E> { let refs: Vec<&[Goal<U, E>]> = vec![&gs[..]]; anyo(OperatorParam::new(&refs)) }

fn fairness(rep: &mut Report) {
    // (name, goal, prefix length, [(value of x0, minimum occurrences in the prefix)])
    let scenarios: Vec<(&str, fn(&[T]) -> Goal<U, E>, usize, Vec<(&str, usize)>)> = vec![
        ("conde{never(), x0=1}", |v| cde(vec![vec![never()], vec![eqk(v, 0, 1)]]), 1, vec![("1", 1)]),
        ("conde{x0=1, never()}", |v| cde(vec![vec![eqk(v, 0, 1)], vec![never()]]), 1, vec![("1", 1)]),
        ("conde{forever(), x0=1}", |v| cde(vec![vec![forever()], vec![eqk(v, 0, 1)]]), 1, vec![("1", 1)]),
        ("conde{[always(),x0=1],[always(),x0=2]}", |v| cde(vec![vec![always(), eqk(v, 0, 1)], vec![always(), eqk(v, 0, 2)]]), 24, vec![("1", 4), ("2", 4)]),
        ("conde{[always(),x0=1],[always(),x0=2],[always(),x0=3]}", |v| cde(vec![vec![always(), eqk(v, 0, 1)], vec![always(), eqk(v, 0, 2)], vec![always(), eqk(v, 0, 3)]]), 40, vec![("1", 3), ("2", 3), ("3", 3)]),
        ("conde{never(), [always(),x0=1], x0=2}", |v| cde(vec![vec![never()], vec![always(), eqk(v, 0, 1)], vec![eqk(v, 0, 2)]]), 12, vec![("1", 3), ("2", 1)]),
        ("conde{conde{never(), x0=1}, [always(),x0=2]}", |v| cde(vec![vec![cde(vec![vec![never()], vec![eqk(v, 0, 1)]])], vec![always(), eqk(v, 0, 2)]]), 12, vec![("1", 1), ("2", 3)]),
        ("conde{[always(),x0=1], x0=2, false, never(), x0=3}", |v| cde(vec![vec![always(), eqk(v, 0, 1)], vec![eqk(v, 0, 2)], vec![Goal::fail()], vec![never()], vec![eqk(v, 0, 3)]]), 16, vec![("1", 3), ("2", 1), ("3", 1)]),
        ("conde{[always(),x0=1], x0=2, [x0=3,false], never()}", |v| cde(vec![vec![always(), eqk(v, 0, 1)], vec![eqk(v, 0, 2)], vec![eqk(v, 0, 3), Goal::fail()], vec![never()]]), 12, vec![("1", 3), ("2", 1)]),
        ("loop{conde{x0=1, never()}}", |v| lp(vec![cde(vec![vec![eqk(v, 0, 1)], vec![never()]])]), 6, vec![("1", 6)]),
        ("loop{conde{x0=1, x0=2}}", |v| lp(vec![cde(vec![vec![eqk(v, 0, 1)], vec![eqk(v, 0, 2)]])]), 12, vec![("1", 3), ("2", 3)]),
        ("conde{loop{x0=1}, loop{x0=2}, forever()}", |v| cde(vec![vec![lp(vec![eqk(v, 0, 1)])], vec![lp(vec![eqk(v, 0, 2)])], vec![forever()]]), 16, vec![("1", 3), ("2", 3)]),
    ];
    // macro-written recursion, each in a child process (a stack overflow there is a finding, not the end of this run)
    for name in CHILD_SCENARIOS.iter() {
        rep.case("fairness", format!("fair {}", name));
        let exe = std::env::current_exe().unwrap();
        let mut child = std::process::Command::new(exe).args(["replay", "search", &format!("child {}", name)]).stdout(std::process::Stdio::piped()).stderr(std::process::Stdio::null()).spawn().unwrap();
        let t0 = std::time::Instant::now();
        let status = loop {
            match child.try_wait().unwrap() { Some(st) => break Some(st), None => { if t0.elapsed().as_secs() > 20 { let _ = child.kill(); break None; } std::thread::sleep(std::time::Duration::from_millis(20)); } }
        };
        match status {
            Some(st) if st.success() => {}
            Some(st) => rep.fail("fairness", name.to_string(), "the answers of the other branch within the prefix".into(), format!("child process ended abnormally ({}): stack overflow / wrong prefix", st), "starved"),
            None => rep.fail("fairness", name.to_string(), "the answers of the other branch within 20 s".into(), "no result: a branch is starved".into(), "starved"),
        }
    }
    // loop { g1, g2 }: the body is the CONJUNCTION of its goals (C06: every answer produced is an answer of the program)
    {
        let name = "loop{conde{x0=1,x0=2}, x0!=1}";
        rep.case("loop-prefix", format!("loop {}", name));
        let g: fn(&[T]) -> Goal<U, E> = |v| { let refs_a = cde(vec![vec![eqk(v, 0, 1)], vec![eqk(v, 0, 2)]]); let ne: Goal<U, E> = Diseq::new::<Goal<U, E>>(v[0].clone(), LTerm::from(1isize)).cast_into(); let a = [refs_a]; let b = [ne]; let refs: Vec<&[Goal<U, E>]> = vec![&a[..], &b[..]]; anyo(OperatorParam::new(&refs)) };
        match guard_timeout(move || prefix(g, 6), 10) {
            Ok(got) => if got.len() != 6 || got.iter().any(|a| a[0] != "2") { rep.fail("loop-prefix", name.to_string(), "six answers, all with x0=2".into(), format!("{:?}", got.iter().map(|a| a[0].clone()).collect::<Vec<_>>()), "invented"); },
            Err(e) => rep.fail("loop-prefix", name.to_string(), "six answers".into(), e, "panic"),
        }
    }
    for (name, g, n, wants) in scenarios {
        rep.case("fairness", format!("fair {}", name));
        match guard_timeout(move || prefix(g, n), 10) {
            Err(e) if e == "TIMEOUT" => { rep.fail("fairness", name.to_string(), format!("{} answers within 10 s", n), "no result: a branch is starved or a step does not return".into(), "starved"); rep.print(); std::process::exit(0); }
            Err(e) => rep.fail("fairness", name.to_string(), "no panic".into(), e, "panic"),
            Ok(got) => for (val, min) in wants {
                let c = got.iter().filter(|a| a[0] == val).count();
                if c < min { rep.fail("fairness", name.to_string(), format!("x0={} at least {} times among the first {} answers", val, min, n), format!("{} times; prefix {:?}", c, got.iter().map(|a| a[0].clone()).collect::<Vec<_>>()), "unfair"); }
            },
        }
    }
}


// ---- programs written in the surface syntax (proto_vulcan! macros): the macros are outside the verifier's reach, so
// the way they hand clause lists to the operator entry points is checked on fixed programs, each against the
// reference tree it is documented to denote (covers `true`/`false` clauses, bracketed clauses, one-goal clauses)
fn macro_scenarios(rep: &mut Report) {
    use proto_vulcan::prelude::*;
    use proto_vulcan::operator::conde::cond;
    let choice = |v: usize| G::Disj(0, vec![vec![G::Eq(v, 1)], vec![G::Eq(v, 2)], vec![G::Eq(v, 3)]]);
    type Mk = fn(&T, &T, &T) -> Goal<U, E>;
    macro_rules! mk { ($x0:ident, $x1:ident, $x2:ident, $e:expr) => { |a: &T, b: &T, c: &T| { #[allow(unused_variables)] let ($x0, $x1, $x2) = (a.clone(), b.clone(), c.clone()); $e } } }
    let cases: Vec<(&str, G, Mk, bool)> = vec![
        ("conda{[x0==1,false],true,x0==2}", G::Conda(vec![vec![G::Eq(0, 1), G::Fail], vec![G::Succ], vec![G::Eq(0, 2)]]),
            mk!(x0, x1, x2, proto_vulcan!(conda { [x0 == 1, false], true, x0 == 2 })), false),
        ("conda{[false,x0==1],true}", G::Conda(vec![vec![G::Fail, G::Eq(0, 1)], vec![G::Succ]]),
            mk!(x0, x1, x2, proto_vulcan!(conda { [false, x0 == 1], true })), false),
        ("condu{false,true,x0==2}", G::Condu(vec![vec![G::Fail], vec![G::Succ], vec![G::Eq(0, 2)]]),
            mk!(x0, x1, x2, proto_vulcan!(condu { false, true, x0 == 2 })), false),
        ("condu{[x0==1,conde{x1==1,x1==2}],x0==3}", G::Condu(vec![vec![G::Eq(0, 1), G::Disj(0, vec![vec![G::Eq(1, 1)], vec![G::Eq(1, 2)]])], vec![G::Eq(0, 3)]]),
            mk!(x0, x1, x2, proto_vulcan!(condu { [x0 == 1, conde { x1 == 1, x1 == 2 }], x0 == 3 })), false),
        ("conde{true,x0==1,[x0==2,true],false}", G::Disj(0, vec![vec![G::Succ], vec![G::Eq(0, 1)], vec![G::Eq(0, 2), G::Succ], vec![G::Fail]]),
            mk!(x0, x1, x2, proto_vulcan!(conde { true, x0 == 1, [x0 == 2, true], false })), false),
        ("onceo{x0==1,x1==1}", G::Onceo(vec![G::Eq(0, 1), G::Eq(1, 1)]),
            mk!(x0, x1, x2, proto_vulcan!(onceo { x0 == 1, x1 == 1 })), false),
        ("onceo{x0==1,x0==2}", G::Onceo(vec![G::Eq(0, 1), G::Eq(0, 2)]),
            mk!(x0, x1, x2, proto_vulcan!(onceo { x0 == 1, x0 == 2 })), false),
        ("onceo{true}", G::Onceo(vec![G::Succ]), mk!(x0, x1, x2, proto_vulcan!(onceo { true })), false),
        ("dfs{conde-3x3}", G::Conj(0, vec![choice(0), choice(1)]),
            mk!(x0, x1, x2, proto_vulcan!(dfs { cond { x0 == 1, x0 == 2, x0 == 3 }, cond { x1 == 1, x1 == 2, x1 == 3 } })), true),
        ("dfs{[c3,c3]}", G::Conj(0, vec![choice(0), choice(1)]),
            mk!(x0, x1, x2, proto_vulcan!(dfs { [cond { x0 == 1, x0 == 2, x0 == 3 }, cond { x1 == 1, x1 == 2, x1 == 3 }] })), true),
        ("dfs{cond{[c3,c3],x2==1}}", G::Disj(0, vec![vec![choice(0), choice(1)], vec![G::Eq(2, 1)]]),
            mk!(x0, x1, x2, proto_vulcan!(dfs { cond { [cond { x0 == 1, x0 == 2, x0 == 3 }, cond { x1 == 1, x1 == 2, x1 == 3 }], x2 == 1 } })), true),
        ("[true,x0==1,[x1==2,x2==3]]", G::Conj(0, vec![G::Succ, G::Eq(0, 1), G::Eq(1, 2), G::Eq(2, 3)]),
            mk!(x0, x1, x2, proto_vulcan!([true, x0 == 1, [x1 == 2, x2 == 3]])), false),
        ("[x0==1,false]", G::Conj(0, vec![G::Eq(0, 1), G::Fail]), mk!(x0, x1, x2, proto_vulcan!([x0 == 1, false])), false),
        ("x0!=1,conde", G::Conj(0, vec![G::Ne(vec![(A::V(0), A::K(1))]), choice(0)]),
            mk!(x0, x1, x2, proto_vulcan!([x0 != 1, conde { x0 == 1, x0 == 2, x0 == 3 }])), false),
        // match with `|`-alternatives inside dfs: alternatives in the order written, then the next arm (C05; the match
        // macro is out of the verifier's reach)
        ("dfs{match[1,2,3]{[x|_]|[_,x|_]=>x0==x,[_,_,x]=>x0==x}}", G::Disj(0, vec![vec![G::Eq(0, 1)], vec![G::Eq(0, 2)], vec![G::Eq(0, 3)]]),
            mk!(x0, x1, x2, proto_vulcan!(dfs { match [1, 2, 3] { [x | _] | [_, x | _] => x0 == x, [_, _, x] => x0 == x } })), true),
        ("dfs{match[1,2]{[x,_]|[_,x]=>cond{x0==x,x1==x}}}", G::Disj(0, vec![vec![G::Disj(0, vec![vec![G::Eq(0, 1)], vec![G::Eq(1, 1)]])], vec![G::Disj(0, vec![vec![G::Eq(0, 2)], vec![G::Eq(1, 2)]])]]),
            mk!(x0, x1, x2, proto_vulcan!(dfs { match [1, 2] { [x, _] | [_, x] => cond { x0 == x, x1 == x } } })), true),
        ("match[1,2]{[x,_]|[_,x]=>x0==x}", G::Disj(0, vec![vec![G::Eq(0, 1)], vec![G::Eq(0, 2)]]),
            mk!(x0, x1, x2, proto_vulcan!(match [1, 2] { [x, _] | [_, x] => x0 == x })), false),
        // C12: the `for` macro; a body of several clauses is their conjunction, for every element
        ("for[x0,x1]{x!=1,conde{x==1,x==2}}", G::For(vec![A::V(0), A::V(1)], Box::new(G::Conj(0, vec![G::Ne(vec![(A::V(3), A::K(1))]), G::Disj(0, vec![vec![G::Eq(3, 1)], vec![G::Eq(3, 2)]])]))),
            mk!(x0, x1, x2, { let coll = vec![x0.clone(), x1.clone()]; proto_vulcan!(for x in &coll { x != 1, conde { x == 1, x == 2 } }) }), false),
        ("for[2,1]{x!=1,conde{x==1,x==2}}", G::For(vec![A::K(2), A::K(1)], Box::new(G::Conj(0, vec![G::Ne(vec![(A::V(3), A::K(1))]), G::Disj(0, vec![vec![G::Eq(3, 1)], vec![G::Eq(3, 2)]])]))),
            mk!(x0, x1, x2, { let coll: Vec<T> = vec![LTerm::from(2isize), LTerm::from(1isize)]; proto_vulcan!(for x in &coll { x != 1, conde { x == 1, x == 2 } }) }), false),
        ("for[x0,x0,x2]{conde{x==1,x==2}}", G::For(vec![A::V(0), A::V(0), A::V(2)], Box::new(G::Disj(0, vec![vec![G::Eq(3, 1)], vec![G::Eq(3, 2)]]))),
            mk!(x0, x1, x2, { let coll = vec![x0.clone(), x0.clone(), x2.clone()]; proto_vulcan!(for x in &coll { conde { x == 1, x == 2 } }) }), false),
        ("for[]{false}", G::For(vec![], Box::new(G::Fail)),
            mk!(x0, x1, x2, { let coll: Vec<T> = vec![]; proto_vulcan!(for x in &coll { false }) }), false),
        ("for[x0]{[x!=7,false]}", G::For(vec![A::V(0)], Box::new(G::Conj(0, vec![G::Ne(vec![(A::V(3), A::K(7))]), G::Fail]))),
            mk!(x0, x1, x2, { let coll = vec![x0.clone()]; proto_vulcan!(for x in &coll { [x != 7, false] }) }), false),
    ];
    for (name, g, mk, ordered) in cases {
        rep.case("macro-syntax", format!("macro {}", name));
        if name.starts_with("for") { rep.case("for-everyg", format!("macro {}", name)); }
        let exp: Vec<Vec<String>> = sem(&g, &Sub::new()).iter().map(|s| s.observe()).collect();
        let out = guard_timeout(move || {
            let vars: Vec<T> = vec![LTerm::var("x0"), LTerm::var("x1"), LTerm::var("x2")];
            let goal = mk(&vars[0], &vars[1], &vars[2]);
            let mut solver: Solver<U, E> = Solver::new((), false);
            let mut stream = solver.start(&goal, State::new(DefaultUser::new()));
            let mut out = vec![];
            while out.len() < 1000 { match solver.next(&mut stream) { Some(st) => out.push(observe_state(&st, &vars)), None => break } }
            out
        }, 10);
        match out {
            Ok(got) => {
                let (mut a, mut b) = (got.clone(), exp.clone());
                if !ordered { a.sort(); b.sort(); }
                if a != b { rep.fail("macro-syntax", name.to_string(), format!("{:?}", exp), format!("{:?}", got), "macro"); if name.starts_with("for") { rep.fail("for-everyg", name.to_string(), format!("{:?}", exp), format!("{:?}", got), "macro"); } }
            }
            Err(e) => rep.fail("macro-syntax", name.to_string(), format!("{:?}", exp), e, "panic"),
        }
    }
}

pub fn search(tier: &str, seed: u64, _only: Option<&str>) {
    let n = if tier == "thorough" { 60_000 } else { 6_000 };
    let mut rep = Report::new("search", &format!("{} generated goal trees (depth <= 3, <= 3 clauses x <= 3 goals, 3 variables, constants 1..3; seed {}) + fixed shapes; every construction form of conj/disj", n, seed));
    fairness(&mut rep);
    macro_scenarios(&mut rep);
    // fixed shapes: member-like choices, nested conj x disj with 3x3 answers (order-sensitive)
    let choice = |v: usize| G::Disj(0, vec![vec![G::Eq(v, 1)], vec![G::Eq(v, 2)], vec![G::Eq(v, 3)]]);
    for f in 0..4u8 { for d in 0..2u8 {
        check(&mut rep, &G::Conj(f, vec![choice(0), choice(1)]));
        check(&mut rep, &G::Conj(f, vec![choice(0), choice(1), G::EqV(0, 2)]));
        check(&mut rep, &G::Disj(d, vec![vec![choice(0), choice(1)], vec![G::Eq(2, 1)]]));
        check(&mut rep, &G::Disj(d, vec![vec![G::Conj(f, vec![choice(0), choice(1)])]]));
        check(&mut rep, &G::Disj(d, vec![vec![G::Eq(0, 1)]]));
        check(&mut rep, &G::Disj(d, vec![]));
    } }
    for f in 0..4u8 {
        let ne1 = G::Ne(vec![(A::V(0), A::K(1))]);
        let ne2 = G::Ne(vec![(A::V(0), A::K(1)), (A::V(1), A::K(2))]);
        let ne3 = G::Ne(vec![(A::V(0), A::V(2)), (A::V(1), A::V(2))]);
        for perm in [[0usize, 1, 2], [0, 2, 1], [1, 0, 2], [1, 2, 0], [2, 0, 1], [2, 1, 0]] {
            let pool = [ne1.clone(), ne2.clone(), G::Eq(0, 1)];
            check(&mut rep, &G::Conj(f, perm.iter().map(|i| pool[*i].clone()).collect()));
            let pool = [ne3.clone(), G::Conj(0, vec![G::Eq(0, 1), G::Eq(1, 2)]), choice(2)];
            check(&mut rep, &G::Conj(f, perm.iter().map(|i| pool[*i].clone()).collect()));
            let pool = [ne2.clone(), choice(0), choice(1)];
            check(&mut rep, &G::Conj(f, perm.iter().map(|i| pool[*i].clone()).collect()));
        }
    }
    check(&mut rep, &G::Conda(vec![vec![G::Eq(0, 1), G::Fail], vec![G::Eq(0, 2)]]));
    check(&mut rep, &G::Conda(vec![vec![choice(0), G::Eq(1, 1), G::EqV(1, 2)], vec![G::Eq(0, 2)]]));
    check(&mut rep, &G::Condu(vec![vec![G::Eq(0, 1), G::Onceo(vec![choice(1)]), G::Eq(1, 2)]]));
    check(&mut rep, &G::Condu(vec![vec![G::Eq(0, 1), choice(1), G::Eq(2, 2)], vec![G::Eq(0, 3)]]));
    // the rest goals of a committed clause run in the order written: a soft cut in the rest sees what came before it
    let sc = G::Conda(vec![vec![G::Eq(1, 2), G::Eq(2, 1)], vec![G::Eq(2, 2)]]);
    check(&mut rep, &G::Condu(vec![vec![G::Eq(0, 1), sc.clone(), G::Eq(1, 3)]]));
    check(&mut rep, &G::Condu(vec![vec![G::Eq(0, 1), G::Eq(1, 3), sc.clone()]]));
    check(&mut rep, &G::Conda(vec![vec![G::Eq(0, 1), sc.clone(), G::Eq(1, 3)], vec![G::Eq(0, 2)]]));
    check(&mut rep, &G::Conda(vec![vec![G::Eq(0, 1), G::Eq(1, 3), sc.clone()], vec![G::Eq(0, 2)]]));
    check(&mut rep, &G::Onceo(vec![G::Eq(0, 1), sc.clone(), G::Eq(1, 3)]));
    check(&mut rep, &G::OnceoFlat(vec![G::Eq(0, 1), sc.clone(), G::Eq(1, 3)]));
    check(&mut rep, &G::Conj(0, vec![G::Eq(0, 1), sc.clone(), G::Eq(1, 3)]));
    check(&mut rep, &G::Onceo(vec![G::Eq(0, 1), choice(1)]));
    check(&mut rep, &G::OnceoFlat(vec![G::Eq(0, 1), choice(1)]));
    check(&mut rep, &G::Onceo(vec![choice(0), G::Eq(0, 2)]));
    check(&mut rep, &G::OnceoFlat(vec![choice(0), G::Eq(0, 2)]));
    check(&mut rep, &G::Onceo(vec![choice(0), choice(1)]));
    check(&mut rep, &G::Onceo(vec![G::Eq(0, 2), G::Eq(0, 2), G::Eq(1, 1)]));
    // C12: `for` over 0..3 elements (an empty collection succeeds exactly once), ground / variable / shared elements
    let fb = |b: G| Box::new(b);
    for coll in [vec![], vec![A::K(1)], vec![A::K(1), A::K(2)], vec![A::V(0), A::V(1)], vec![A::V(0), A::K(2), A::V(0)], vec![A::K(3), A::V(1), A::V(2)]] {
        check(&mut rep, &G::For(coll.clone(), fb(G::Ne(vec![(A::V(3), A::K(2))]))));
        check(&mut rep, &G::For(coll.clone(), fb(G::EqV(3, 2))));
        check(&mut rep, &G::For(coll.clone(), fb(G::Disj(0, vec![vec![G::Eq(3, 1)], vec![G::Eq(3, 2)]]))));
        check(&mut rep, &G::Conj(0, vec![G::Eq(0, 1), G::For(coll.clone(), fb(G::Ne(vec![(A::V(1), A::V(3))]))), G::Eq(1, 2)]));
        check(&mut rep, &G::Disj(0, vec![vec![G::For(coll.clone(), fb(G::Eq(3, 1)))], vec![G::Eq(2, 3)]]));
    }
    let mut r = Rng(0x9E3779B97F4A7C15 ^ (seed.wrapping_mul(0x2545F4914F6CDD1D)) | 1);
    for i in 0..n {
        let depth = 1 + (i % 3);
        let g = gen(&mut r, depth, i % 2 == 0);
        check(&mut rep, &g);
    }
    rep.print();
}

// ---- parser for the textual form printed by G::show (replay of a recorded failing program)
struct P<'a> { s: &'a [u8], i: usize }
impl<'a> P<'a> {
    fn peek(&self) -> u8 { if self.i < self.s.len() { self.s[self.i] } else { 0 } }
    fn eat(&mut self, c: u8) -> bool { if self.peek() == c { self.i += 1; true } else { false } }
    fn num(&mut self) -> isize { let st = self.i; while self.peek() == b'-' || self.peek().is_ascii_digit() { self.i += 1; } std::str::from_utf8(&self.s[st..self.i]).unwrap().parse().unwrap() }
    fn list(&mut self, close: u8) -> Vec<G> { let mut v = vec![]; while self.peek() != close { v.push(self.goal()); self.eat(b','); } self.eat(close); v }
    fn clauses(&mut self) -> Vec<Vec<G>> { let mut v = vec![]; while self.peek() != b')' { if self.eat(b' ') { continue; } self.eat(b'['); v.push(self.list(b']')); } self.eat(b')'); v }
    fn word(&mut self) -> String { let st = self.i; while self.peek().is_ascii_alphabetic() { self.i += 1; } String::from_utf8(self.s[st..self.i].to_vec()).unwrap() }
    fn operand(&mut self) -> A { if self.eat(b'x') { A::V(self.num() as usize) } else { A::K(self.num()) } }
    fn goal(&mut self) -> G {
        if self.peek() == b'x' { self.i += 1; let v = self.num() as usize; self.eat(b'='); if self.eat(b'x') { return G::EqV(v, self.num() as usize); } return G::Eq(v, self.num()); }
        let w = self.word();
        if w == "ne" {
            self.eat(b'<');
            let mut ps = vec![];
            while self.peek() != b'>' {
                let a = self.operand(); self.eat(b':'); let b = self.operand(); ps.push((a, b)); self.eat(b';');
            }
            self.eat(b'>');
            return G::Ne(ps);
        }
        match w.as_str() {
            "T" => G::Succ, "F" => G::Fail,
            "and" => { let f = self.num() as u8; self.eat(b'('); G::Conj(f, self.list(b')')) }
            "or" => { let f = self.num() as u8; self.eat(b'('); G::Disj(f, self.clauses()) }
            "conda" => { self.eat(b'('); G::Conda(self.clauses()) }
            "condu" => { self.eat(b'('); G::Condu(self.clauses()) }
            "onceo" => { self.eat(b'('); G::Onceo(self.list(b')')) }
            "onceoflat" => { self.eat(b'('); G::OnceoFlat(self.list(b')')) }
            "for" => { self.eat(b'<'); let mut c = vec![]; while self.peek() != b'>' { c.push(self.operand()); self.eat(b';'); } self.eat(b'>'); self.eat(b'('); let b = self.goal(); self.eat(b')'); G::For(c, Box::new(b)) }
            _ => G::Fail,
        }
    }
}

pub fn replay(input: &str) {
    if let Some(name) = input.strip_prefix("child ") {
        match child_scenario(name) { Ok(()) => std::process::exit(0), Err(e) => { println!("{}", e); std::process::exit(3) } }
    }
    // input: "<check name> <program text>"
    let body = input.splitn(2, ' ').nth(1).unwrap_or(input);
    let g = P { s: body.as_bytes(), i: 0 }.goal();
    let mut rep = Report::new("search", "replay");
    if g.show() != body { rep.fail("replay", body.to_string(), body.to_string(), g.show(), "parse"); }
    check(&mut rep, &g);
    rep.print();
}
