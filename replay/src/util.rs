use std::fmt::Write;

pub struct Failure {
    pub func: String,
    pub input: String,
    pub expected: String,
    pub got: String,
    pub class: String,
}

pub fn esc(s: &str) -> String {
    let mut o = String::new();
    for c in s.chars() {
        match c {
            '"' => o.push_str("\\\""),
            '\\' => o.push_str("\\\\"),
            '\n' => o.push_str("\\n"),
            c => o.push(c),
        }
    }
    o
}

pub struct Report {
    pub harness: String,
    pub bound: String,
    pub cases: u64,
    pub nontrivial: std::collections::HashSet<String>,
    pub per_fn: std::collections::BTreeMap<String, u64>,
    pub failures: Vec<Failure>,
    pub fail_counts: std::collections::BTreeMap<String, u64>,
}

impl Report {
    pub fn new(h: &str, bound: &str) -> Report {
        Report { harness: h.into(), bound: bound.into(), cases: 0, nontrivial: Default::default(), per_fn: Default::default(), failures: vec![], fail_counts: Default::default() }
    }
    pub fn case(&mut self, func: &str, key: String) {
        self.cases += 1;
        *self.per_fn.entry(func.to_string()).or_insert(0) += 1;
        self.nontrivial.insert(key);
    }
    pub fn fail(&mut self, func: &str, input: String, expected: String, got: String, class: &str) {
        *self.fail_counts.entry(func.to_string()).or_insert(0) += 1;
        *self.fail_counts.entry(format!("{}/{}", func, class)).or_insert(0) += 1;
        if self.failures.iter().filter(|f| f.func == func && f.class == class).count() < 3 && self.failures.iter().filter(|f| f.func == func).count() >= 6 {
            self.failures.push(Failure { func: func.into(), input: input.clone(), expected: expected.clone(), got: got.clone(), class: class.into() });
        }
        if self.failures.iter().filter(|f| f.func == func).count() < 6 {
            self.failures.push(Failure { func: func.into(), input, expected, got, class: class.into() });
        }
    }
    pub fn print(&self) {
        let mut s = String::new();
        write!(s, "{{\"harness\":\"{}\",\"bound\":\"{}\",\"cases\":{},\"distinct_nontrivial\":{},\"per_fn\":{{", esc(&self.harness), esc(&self.bound), self.cases, self.nontrivial.len()).unwrap();
        let mut first = true;
        for (k, v) in &self.per_fn {
            if !first { s.push(','); }
            first = false;
            write!(s, "\"{}\":{}", esc(k), v).unwrap();
        }
        s.push_str("},\"fail_counts\":{");
        let mut first = true;
        for (k, v) in &self.fail_counts {
            if !first { s.push(','); }
            first = false;
            write!(s, "\"{}\":{}", esc(k), v).unwrap();
        }
        s.push_str("},\"failures\":[");
        for (i, f) in self.failures.iter().enumerate() {
            if i > 0 { s.push(','); }
            write!(s, "{{\"fn\":\"{}\",\"input\":\"{}\",\"expected\":\"{}\",\"got\":\"{}\",\"class\":\"{}\"}}", esc(&f.func), esc(&f.input), esc(&f.expected), esc(&f.got), esc(&f.class)).unwrap();
        }
        s.push_str("]}");
        println!("{}", s);
    }
}

/// run f, turning a panic into Err(message)
pub fn guard<T, F: FnOnce() -> T + std::panic::UnwindSafe>(f: F) -> Result<T, String> {
    match std::panic::catch_unwind(f) {
        Ok(v) => Ok(v),
        Err(e) => {
            let msg = if let Some(s) = e.downcast_ref::<&str>() { s.to_string() } else if let Some(s) = e.downcast_ref::<String>() { s.clone() } else { "panic".to_string() };
            Err(format!("PANIC: {}", msg))
        }
    }
}

/// run f on a helper thread; a tiny generated case that runs longer than `secs` seconds (normal: microseconds)
/// is reported as divergence.  The helper thread cannot be stopped: the caller prints its report and exits.
pub fn guard_timeout<T: Send + 'static, F: FnOnce() -> T + Send + std::panic::UnwindSafe + 'static>(f: F, secs: u64) -> Result<T, String> {
    let (tx, rx) = std::sync::mpsc::channel();
    std::thread::Builder::new().stack_size(64 << 20).spawn(move || { let r = guard(f); let _ = tx.send(r); }).unwrap();
    match rx.recv_timeout(std::time::Duration::from_secs(secs)) {
        Ok(r) => r,
        Err(_) => Err("TIMEOUT".to_string()),
    }
}
