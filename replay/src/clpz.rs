//! Executable twin of the `clpz` unit's contracts: plusz / timesz against integer arithmetic,
//! run on the real State (unify + constraint store), over operand groundness patterns and posting orders.
use crate::util::*;
use proto_vulcan::engine::DefaultEngine;
use proto_vulcan::lterm::LTerm;
use proto_vulcan::relation::clpz::plusz::PlusZConstraint;
use proto_vulcan::relation::clpz::timesz::TimesZConstraint;
use proto_vulcan::state::State;
use proto_vulcan::user::DefaultUser;

type U = DefaultUser;
type E = DefaultEngine<DefaultUser>;
type T = LTerm<U, E>;
type S = State<U, E>;

#[derive(Clone, Copy, Debug, PartialEq)]
enum Op { Const(isize), Before(isize), After(isize), Free }

impl Op {
    fn show(&self) -> String { match self { Op::Const(k) => format!("c{}", k), Op::Before(k) => format!("b{}", k), Op::After(k) => format!("a{}", k), Op::Free => "f".into() } }
    fn parse(s: &str) -> Op {
        let k = |s: &str| s[1..].parse::<isize>().unwrap();
        match &s[..1] { "c" => Op::Const(k(s)), "b" => Op::Before(k(s)), "a" => Op::After(k(s)), _ => Op::Free }
    }
    fn value(&self) -> Option<isize> { match self { Op::Const(k) | Op::Before(k) | Op::After(k) => Some(*k), Op::Free => None } }
}

/// expected outcome for the final state: None = no answer; Some(vals) = one answer with the value
/// (or None = still unbound) of each operand
fn expected(times: bool, ops: &[Op; 3]) -> Option<[Option<isize>; 3]> {
    let v: Vec<Option<isize>> = ops.iter().map(|o| o.value()).collect();
    let (a, b, c) = (v[0], v[1], v[2]);
    let f = |x: isize, y: isize| if times { x.checked_mul(y) } else { x.checked_add(y) };
    match (a, b, c) {
        (Some(a), Some(b), Some(c)) => if f(a, b) == Some(c) { Some([Some(a), Some(b), Some(c)]) } else { None },
        (Some(a), Some(b), None) => f(a, b).map(|c| [Some(a), Some(b), Some(c)]),
        (Some(k), None, Some(c)) | (None, Some(k), Some(c)) => {
            let swap = a.is_none();
            let other = if !times { c.checked_sub(k) } else if k == 0 { if c == 0 { return Some(if swap { [None, Some(k), Some(c)] } else { [Some(k), None, Some(c)] }); } else { return None; } }
                        else if c % k == 0 { c.checked_div(k) } else { return None; };
            other.map(|o| if swap { [Some(o), Some(k), Some(c)] } else { [Some(k), Some(o), Some(c)] })
        }
        _ => Some([a, b, c]),
    }
}

fn run_case(times: bool, ops: &[Op; 3], alias01: bool) -> Result<Option<[Option<isize>; 3]>, String> {
    let ops = *ops;
    guard(move || {
        let mut st: S = State::new(DefaultUser::new());
        let vars: Vec<T> = vec![LTerm::var("x"), LTerm::var("y"), LTerm::var("z")];
        let term = |i: usize| -> T { match ops[i] { Op::Const(k) => LTerm::from(k), _ => if alias01 && i == 1 { vars[0].clone() } else { vars[i].clone() } } };
        // bindings before
        for i in 0..3 { if let Op::Before(k) = ops[i] { match st.unify(&term(i), &LTerm::from(k)) { Ok(s) => st = s, Err(_) => return None } } }
        let c = if times { TimesZConstraint::new(term(0), term(1), term(2)) } else { PlusZConstraint::new(term(0), term(1), term(2)) };
        match c.run(st) { Ok(s) => st = s, Err(_) => return None }
        for i in 0..3 { if let Op::After(k) = ops[i] { match st.unify(&term(i), &LTerm::from(k)) { Ok(s) => st = s, Err(_) => return None } } }
        let mut out = [None; 3];
        for i in 0..3 { out[i] = st.smap_ref().walk(&term(i)).get_number(); }
        Some(out)
    })
}

fn check(rep: &mut Report, times: bool, ops: &[Op; 3]) {
    let name = if times { "timesz" } else { "plusz" };
    let inp = format!("{} {} {}", ops[0].show(), ops[1].show(), ops[2].show());
    rep.case(name, format!("{} {}", name, inp));
    let exp = expected(times, ops);
    let ground = ops.iter().filter(|o| o.value().is_some()).count();
    let class = if ground == 0 { "all-unbound" } else if ground == 3 { "all-ground" } else { "partial" };
    match run_case(times, ops, false) {
        Ok(got) => if got != exp { rep.fail(name, inp, format!("{:?}", exp), format!("{:?}", got), class); },
        Err(e) => rep.fail(name, inp, format!("{:?}", exp), e, "panic"),
    }
}

pub fn search(tier: &str, only: Option<&str>) {
    let r: isize = if tier == "thorough" { 6 } else { 3 };
    let mut vals: Vec<isize> = (-r..=r).collect();
    if tier == "thorough" { vals.extend_from_slice(&[12, -12, 7]); }
    let mut kinds: Vec<Op> = vec![Op::Free];
    for &k in &vals { kinds.push(Op::Const(k)); kinds.push(Op::Before(k)); kinds.push(Op::After(k)); }
    let mut rep = Report::new("clpz", &format!("every operand in {{constant, variable bound before posting, variable bound after posting, unbound}} over integers {:?}; both relations", vals));
    for times in [false, true] {
        if let Some(o) = only { if (o == "timesz") != times && (o == "plusz" || o == "timesz") { continue; } }
        for a in &kinds { for b in &kinds { for c in &kinds { check(&mut rep, times, &[*a, *b, *c]); } } }
    }
    rep.print();
}

pub fn replay(input: &str) {
    let p: Vec<&str> = input.split_whitespace().collect();
    let mut rep = Report::new("clpz", "replay");
    let times = p[0] == "timesz";
    check(&mut rep, times, &[Op::parse(p[1]), Op::parse(p[2]), Op::parse(p[3])]);
    rep.print();
}
