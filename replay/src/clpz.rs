//! Executable twin of the `clpz` unit's contracts: plusz / timesz against integer arithmetic,
//! run on the real State (unify + constraint store), over operand groundness patterns and posting orders.
use crate::util::*;
use proto_vulcan::engine::DefaultEngine;
use proto_vulcan::lterm::LTerm;
use proto_vulcan::relation::clpz::plusz::PlusZConstraint;
use proto_vulcan::relation::clpz::timesz::TimesZConstraint;
use proto_vulcan::state::State;
use proto_vulcan::user::DefaultUser;

type U = DefaultUser;
type E = DefaultEngine<DefaultUser>;
type T = LTerm<U, E>;
type S = State<U, E>;

#[derive(Clone, Copy, Debug, PartialEq)]
enum Op { Const(isize), Before(isize), After(isize), Free }

impl Op {
    fn show(&self) -> String { match self { Op::Const(k) => format!("c{}", k), Op::Before(k) => format!("b{}", k), Op::After(k) => format!("a{}", k), Op::Free => "f".into() } }
    fn parse(s: &str) -> Op {
        let k = |s: &str| s[1..].parse::<isize>().unwrap();
        match &s[..1] { "c" => Op::Const(k(s)), "b" => Op::Before(k(s)), "a" => Op::After(k(s)), _ => Op::Free }
    }
    fn value(&self) -> Option<isize> { match self { Op::Const(k) | Op::Before(k) | Op::After(k) => Some(*k), Op::Free => None } }
}

/// expected outcome for the final state: None = no answer; Some(vals) = one answer with the value
/// (or None = still unbound) of each operand
fn expected(times: bool, ops: &[Op; 3]) -> Option<[Option<isize>; 3]> {
    let v: Vec<Option<isize>> = ops.iter().map(|o| o.value()).collect();
    let (a, b, c) = (v[0], v[1], v[2]);
    let f = |x: isize, y: isize| if times { x.checked_mul(y) } else { x.checked_add(y) };
    match (a, b, c) {
        (Some(a), Some(b), Some(c)) => if f(a, b) == Some(c) { Some([Some(a), Some(b), Some(c)]) } else { None },
        (Some(a), Some(b), None) => f(a, b).map(|c| [Some(a), Some(b), Some(c)]),
        (Some(k), None, Some(c)) | (None, Some(k), Some(c)) => {
            let swap = a.is_none();
            let other = if !times { c.checked_sub(k) } else if k == 0 { if c == 0 { return Some(if swap { [None, Some(k), Some(c)] } else { [Some(k), None, Some(c)] }); } else { return None; } }
                        else if c % k == 0 { c.checked_div(k) } else { return None; };
            other.map(|o| if swap { [Some(o), Some(k), Some(c)] } else { [Some(k), Some(o), Some(c)] })
        }
        _ => Some([a, b, c]),
    }
}

fn run_case(times: bool, ops: &[Op; 3], alias01: bool) -> Result<Option<[Option<isize>; 3]>, String> {
    let ops = *ops;
    guard(move || {
        let mut st: S = State::new(DefaultUser::new());
        let vars: Vec<T> = vec![LTerm::var("x"), LTerm::var("y"), LTerm::var("z")];
        let term = |i: usize| -> T { match ops[i] { Op::Const(k) => LTerm::from(k), _ => if alias01 && i == 1 { vars[0].clone() } else { vars[i].clone() } } };
        // bindings before
        for i in 0..3 { if let Op::Before(k) = ops[i] { match st.unify(&term(i), &LTerm::from(k)) { Ok(s) => st = s, Err(_) => return None } } }
        let c = if times { TimesZConstraint::new(term(0), term(1), term(2)) } else { PlusZConstraint::new(term(0), term(1), term(2)) };
        match c.run(st) { Ok(s) => st = s, Err(_) => return None }
        for i in 0..3 { if let Op::After(k) = ops[i] { match st.unify(&term(i), &LTerm::from(k)) { Ok(s) => st = s, Err(_) => return None } } }
        let mut out = [None; 3];
        for i in 0..3 { out[i] = st.smap_ref().walk(&term(i)).get_number(); }
        Some(out)
    })
}

fn check(rep: &mut Report, times: bool, ops: &[Op; 3]) {
    let name = if times { "timesz" } else { "plusz" };
    let inp = format!("{} {} {}", ops[0].show(), ops[1].show(), ops[2].show());
    rep.case(name, format!("{} {}", name, inp));
    let exp = expected(times, ops);
    let ground = ops.iter().filter(|o| o.value().is_some()).count();
    let class = if ground == 0 { "all-unbound" } else if ground == 3 { "all-ground" } else { "partial" };
    match run_case(times, ops, false) {
        Ok(got) => if got != exp { rep.fail(name, inp, format!("{:?}", exp), format!("{:?}", got), class); },
        Err(e) => rep.fail(name, inp, format!("{:?}", exp), e, "panic"),
    }
}

/// C10: a state is a value.  A disjunction gives every branch a clone of the incoming state; whatever one branch does
/// (bind through a constraint, add a constraint) must leave the clone held by the other branch as it was.  Here the two
/// branches are run by hand on two clones of one prefix state, first in one order and then in the other.
fn isolation(rep: &mut Report, times: bool, a: isize, b: isize) {
    let name = "isolation";
    let inp = format!("{} {} {}", if times { "timesz" } else { "plusz" }, a, b);
    rep.case(name, inp.clone());
    let r = guard(move || -> Result<(), String> {
        let vars: Vec<T> = vec![LTerm::var("x"), LTerm::var("y"), LTerm::var("w"), LTerm::var("v")];
        let mk = |u: &T, v: &T, w: &T| if times { TimesZConstraint::new(u.clone(), v.clone(), w.clone()) } else { PlusZConstraint::new(u.clone(), v.clone(), w.clone()) };
        let res = if times { a * b } else { a + b };
        for order in 0..2 {
            let mut st: S = State::new(DefaultUser::new());
            st = st.unify(&vars[0], &LTerm::from(a)).map_err(|_| "prefix")?;
            st = st.unify(&vars[1], &LTerm::from(b)).map_err(|_| "prefix")?;
            // a pending constraint shared by both branches: x + v = w, v still unbound (solvable for every w)
            st = PlusZConstraint::new(vars[0].clone(), vars[3].clone(), vars[2].clone()).run(st).map_err(|_| "prefix constraint")?;
            let (s1, s2) = (st.clone(), st.clone());
            let branch_a = |s: S| -> Result<S, ()> { mk(&vars[0], &vars[1], &vars[2]).run(s) };          // binds w = a (+|*) b, which also fires the pending one
            let branch_b = |s: S| -> Result<S, ()> { s.unify(&vars[2], &LTerm::from(res + 1)) };           // binds w to another value
            let (ra, rb) = if order == 0 { let x = branch_a(s1); let y = branch_b(s2); (x, y) } else { let y = branch_b(s2); let x = branch_a(s1); (x, y) };
            let wa = ra.as_ref().ok().and_then(|s| s.smap_ref().walk(&vars[2]).get_number());
            let wb = rb.as_ref().ok().and_then(|s| s.smap_ref().walk(&vars[2]).get_number());
            if wa != Some(res) { return Err(format!("order {}: branch A gives w = {:?}, expected {}", order, wa, res)); }
            if wb != Some(res + 1) { return Err(format!("order {}: branch B gives w = {:?}, expected {} (what branch A did must not be visible)", order, wb, res + 1)); }
            if st.smap_ref().walk(&vars[2]).get_number().is_some() { return Err(format!("order {}: the prefix state itself was changed by a branch", order)); }
        }
        Ok(())
    });
    match r { Ok(Ok(())) => {}, Ok(Err(e)) => rep.fail(name, inp, "each branch sees only its own bindings".into(), e, "leak"), Err(e) => rep.fail(name, inp, "no panic".into(), e, "panic") }
}

pub fn search(tier: &str, only: Option<&str>) {
    let r: isize = if tier == "thorough" { 6 } else { 3 };
    let mut vals: Vec<isize> = (-r..=r).collect();
    if tier == "thorough" { vals.extend_from_slice(&[12, -12, 7]); }
    let mut kinds: Vec<Op> = vec![Op::Free];
    for &k in &vals { kinds.push(Op::Const(k)); kinds.push(Op::Before(k)); kinds.push(Op::After(k)); }
    let mut rep = Report::new("clpz", &format!("every operand in {{constant, variable bound before posting, variable bound after posting, unbound}} over integers {:?}; both relations", vals));
    for times in [false, true] {
        if let Some(o) = only { if (o == "timesz") != times && (o == "plusz" || o == "timesz") { continue; } }
        for a in &kinds { for b in &kinds { for c in &kinds { check(&mut rep, times, &[*a, *b, *c]); } } }
    }
    if only.is_none() { for times in [false, true] { for a in [1isize, 2, -1] { for b in [2isize, 3] { isolation(&mut rep, times, a, b); } } } }
    rep.print();
}

pub fn replay(input: &str) {
    let p: Vec<&str> = input.split_whitespace().collect();
    let mut rep = Report::new("clpz", "replay");
    if p[0] == "isolation" { isolation(&mut rep, p[1] == "timesz", p[2].parse().unwrap(), p[3].parse().unwrap()); rep.print(); return; }
    let times = p[0] == "timesz";
    check(&mut rep, times, &[Op::parse(p[1]), Op::parse(p[2]), Op::parse(p[3])]);
    rep.print();
}
