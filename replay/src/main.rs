//! pv-replay: executes /repo's real code (path dependency) on concrete inputs.
//!   pv-replay search <harness> [--tier quick|thorough] [--seed N] [--only <fn>]
//!   pv-replay replay <harness> '<input>'
//! Last stdout line is a JSON object:
//!   {"harness":..,"cases":N,"distinct_nontrivial":M,"bound":"..","failures":[{"fn":..,"input":..,"expected":..,"got":..,"class":..}]}
mod clpfd;
mod clpz;
mod diseq;
mod fd;
mod hooks;
mod lterm;
mod search;
mod unify;
mod util;

fn main() {
    let args: Vec<String> = std::env::args().collect();
    if args.len() < 3 {
        eprintln!("usage: pv-replay search|replay <harness> ...");
        std::process::exit(2);
    }
    // panics of the code under test are caught and reported as failures; keep stderr quiet
    std::panic::set_hook(Box::new(|_| {}));
    let mut tier = "quick".to_string();
    let mut seed = 0u64;
    let mut only: Option<String> = None;
    let mut i = 3;
    while i < args.len() {
        match args[i].as_str() {
            "--tier" => { tier = args[i + 1].clone(); i += 2; }
            "--seed" => { seed = args[i + 1].parse().unwrap_or(0); i += 2; }
            "--only" => { only = Some(args[i + 1].clone()); i += 2; }
            _ => { i += 1; }
        }
    }
    match (args[1].as_str(), args[2].as_str()) {
        ("search", "fd") => fd::search(&tier, only.as_deref()),
        ("replay", "fd") => fd::replay(&args[3]),
        ("search", "search") => search::search(&tier, seed, only.as_deref()),
        ("replay", "search") => search::replay(&args[3]),
        ("search", "clpfd") => clpfd::search(&tier, seed, only.as_deref()),
        ("replay", "clpfd") => clpfd::replay(&args[3]),
        ("search", "hooks") => hooks::search(&tier, only.as_deref()),
        ("replay", "hooks") => hooks::replay(&args[3]),
        ("search", "lterm") => lterm::search(&tier, only.as_deref()),
        ("replay", "lterm") => lterm::replay(&args[3]),
        ("search", "unify") => unify::search(&tier, only.as_deref()),
        ("replay", "unify") => unify::replay(&args[3]),
        ("search", "diseq") => diseq::search(&tier, seed, only.as_deref()),
        ("replay", "diseq") => diseq::replay(&args[3]),
        ("search", "clpz") => clpz::search(&tier, only.as_deref()),
        ("replay", "clpz") => clpz::replay(&args[3]),
        _ => {
            println!("{{\"error\":\"unknown harness\"}}");
            std::process::exit(2);
        }
    }
}
