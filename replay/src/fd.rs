//! Executable twin of the `fd` unit's contracts (contracts/fd.vc): every FiniteDomain operation
//! against the set of integers the domain denotes.  Model: BTreeSet for sparse domains and narrow
//! intervals, (lo, hi) arithmetic for wide intervals.
use crate::util::*;
use proto_vulcan::state::FiniteDomain;
use std::collections::BTreeSet;

#[derive(Clone, Debug)]
pub enum D {
    I(isize, isize),   // interval lo..=hi (lo <= hi)
    S(Vec<isize>),     // sparse, as given to From<Vec> (may be unsorted / duplicated)
}

impl D {
    fn build(&self) -> FiniteDomain {
        match self {
            D::I(a, b) => FiniteDomain::from(*a..=*b),
            D::S(v) => FiniteDomain::from(v.clone()),
        }
    }
    fn wide(&self) -> bool {
        match self { D::I(a, b) => (*b as i128) - (*a as i128) > 64, _ => false }
    }
    fn has(&self, x: isize) -> bool {
        match self { D::I(a, b) => *a <= x && x <= *b, D::S(v) => v.contains(&x) }
    }
    fn set(&self) -> BTreeSet<isize> {
        match self {
            D::I(a, b) => { assert!(!self.wide()); (*a..=*b).collect() }
            D::S(v) => v.iter().copied().collect(),
        }
    }
    fn show(&self) -> String {
        match self { D::I(a, b) => format!("I:{}:{}", a, b), D::S(v) => format!("S:{}", v.iter().map(|x| x.to_string()).collect::<Vec<_>>().join(",")) }
    }
    fn parse(s: &str) -> D {
        let p: Vec<&str> = s.split(':').collect();
        if p[0] == "I" { D::I(p[1].parse().unwrap(), p[2].parse().unwrap()) }
        else { D::S(if p.len() < 2 || p[1].is_empty() { vec![] } else { p[1].split(',').map(|x| x.parse().unwrap()).collect() }) }
    }
}

fn listing(d: &FiniteDomain) -> Vec<isize> { d.iter().collect() }
fn show_opt(o: &Option<FiniteDomain>) -> String {
    match o { None => "None".into(), Some(d) => format!("Some({:?})", listing(d)) }
}
fn show_set(s: &BTreeSet<isize>) -> String { format!("{:?}", s.iter().collect::<Vec<_>>()) }

/// does Option<FiniteDomain> denote exactly `want` (None iff empty), and is it well-formed
/// (strictly ascending listing, non-empty)?
fn denotes(o: &Option<FiniteDomain>, want: &BTreeSet<isize>) -> bool {
    match o {
        None => want.is_empty(),
        Some(d) => {
            let l = listing(d);
            !l.is_empty() && l.windows(2).all(|w| w[0] < w[1]) && l.iter().copied().collect::<BTreeSet<_>>() == *want
                && l.len() == want.len()
        }
    }
}

pub fn universe(tier: &str) -> (Vec<D>, Vec<isize>, String) {
    let (lo, hi, maxlen) = if tier == "thorough" { (-3isize, 4isize, 6usize) } else { (-3isize, 3isize, 4usize) };
    let mut ds = vec![];
    for a in lo..=hi { for b in a..=hi { ds.push(D::I(a, b)); } }
    // extreme bounds
    let (mn, mx) = (isize::MIN, isize::MAX);
    for (a, b) in [(mn, mn), (mn, mn + 1), (mx - 1, mx), (mx, mx), (mn, mx), (-2, mx), (mn, 2), (mn, 0), (0, mx)] { ds.push(D::I(a, b)); }
    // sparse: all subsets of the window up to maxlen, in ascending order
    let w: Vec<isize> = (lo..=hi).collect();
    let n = w.len();
    for mask in 1u32..(1u32 << n) {
        if (mask.count_ones() as usize) > maxlen { continue; }
        let v: Vec<isize> = (0..n).filter(|i| mask & (1 << i) != 0).map(|i| w[i]).collect();
        ds.push(D::S(v));
    }
    // unsorted and duplicated vectors
    for v in [vec![3, 1, 2], vec![1, 1], vec![2, 1, 2, 1], vec![0, 0, 0], vec![3, -3, 3], vec![1, 2, 2, 3], vec![mx, mn, 0], vec![mn, mn]] { ds.push(D::S(v)); }
    let mut probes: Vec<isize> = ((lo - 1)..=(hi + 1)).collect();
    probes.extend_from_slice(&[mn, mn + 1, mn + 2, mx - 2, mx - 1, mx]);
    (ds, probes, format!("intervals and sparse subsets (len<={}) of window [{},{}] + extreme isize bounds + unsorted/duplicated vectors", maxlen, lo, hi))
}

fn unary(rep: &mut Report, d: &D, probes: &[isize], only: Option<&str>) {
    let inp = d.show();
    let want = |f: &str| only.map_or(true, |o| o == f);
    let built = match guard({ let d = d.clone(); move || d.build() }) { Ok(b) => b, Err(e) => { rep.fail("from", inp.clone(), "a domain".into(), e, "panic"); return; } };
    // From<Vec>: denotes exactly the vector's elements, strictly ascending
    if let D::S(v) = d {
        if want("from") {
            rep.case("from", format!("from {}", inp));
            let ws: BTreeSet<isize> = v.iter().copied().collect();
            match guard({ let b = built.clone(); move || listing(&b) }) {
                Ok(l) => if !(l.windows(2).all(|w| w[0] < w[1]) && l.iter().copied().collect::<BTreeSet<_>>() == ws) {
                    rep.fail("from", inp.clone(), show_set(&ws), format!("{:?}", l), "wrong");
                },
                Err(e) => rep.fail("from", inp.clone(), show_set(&ws), e, "panic"),
            }
        }
    }
    let single = match d { D::I(a, b) => a == b, D::S(v) => v.iter().collect::<BTreeSet<_>>().len() == 1 };
    let (mn, mx) = match d { D::I(a, b) => (*a, *b), D::S(v) => (*v.iter().min().unwrap(), *v.iter().max().unwrap()) };
    macro_rules! chk { ($name:expr, $exp:expr, $call:expr) => { if want($name) {
        rep.case($name, format!("{} {}", $name, inp));
        let b = built.clone();
        match guard(move || $call(&b)) {
            Ok(g) => if g != $exp { rep.fail($name, inp.clone(), format!("{:?}", $exp), format!("{:?}", g), "wrong"); },
            Err(e) => rep.fail($name, inp.clone(), format!("{:?}", $exp), e, "panic"),
        } } } }
    chk!("is_singleton", single, |b: &FiniteDomain| b.is_singleton());
    chk!("singleton_value", if single { Some(mn) } else { None }, |b: &FiniteDomain| b.singleton_value());
    chk!("min", mn, |b: &FiniteDomain| b.min());
    chk!("max", mx, |b: &FiniteDomain| b.max());
    if want("contains") {
        for &u in probes {
            rep.case("contains", format!("contains {} {}", inp, u));
            let b = built.clone();
            match guard(move || b.contains(u)) {
                Ok(g) => if g != d.has(u) { rep.fail("contains", format!("{} {}", inp, u), d.has(u).to_string(), g.to_string(), "wrong"); },
                Err(e) => rep.fail("contains", format!("{} {}", inp, u), d.has(u).to_string(), e, "panic"),
            }
        }
    }
    if d.wide() {
        // copy_before / drop_before on wide intervals: thresholds near the ends only
        return;
    }
    let set = d.set();
    let asc: Vec<isize> = set.iter().copied().collect();
    let desc: Vec<isize> = set.iter().rev().copied().collect();
    macro_rules! chkv { ($name:expr, $exp:expr, $call:expr) => { if want($name) {
        rep.case($name, format!("{} {}", $name, inp));
        let b = built.clone();
        match guard(move || $call(b)) {
            Ok(g) => if g != $exp { rep.fail($name, inp.clone(), format!("{:?}", $exp), format!("{:?}", g), "wrong"); },
            Err(e) => rep.fail($name, inp.clone(), format!("{:?}", $exp), e, "panic"),
        } } } }
    chkv!("iter", asc, |b: FiniteDomain| b.iter().collect::<Vec<isize>>());
    chkv!("iter.rev", desc, |b: FiniteDomain| b.iter().rev().collect::<Vec<isize>>());
    chkv!("into_iter", asc, |b: FiniteDomain| b.into_iter().collect::<Vec<isize>>());
    chkv!("into_iter.rev", desc, |b: FiniteDomain| b.into_iter().rev().collect::<Vec<isize>>());
    // fused: next() keeps returning None
    chkv!("iter.fused", true, |b: FiniteDomain| { let mut it = b.iter(); while it.next().is_some() {} it.next().is_none() && it.next().is_none() });
    // threshold predicates as used by the propagators
    for &t in probes {
        for (pname, pred) in [("ge", (|x: isize, t: isize| x >= t) as fn(isize, isize) -> bool), ("gt", |x, t| x > t), ("eq", |x, t| x == t)] {
            // first element satisfying the predicate
            let first = asc.iter().position(|x| pred(*x, t));
            let before: BTreeSet<isize> = match first { Some(i) => asc[..i].iter().copied().collect(), None => set.clone() };
            let from: BTreeSet<isize> = match first { Some(i) => asc[i..].iter().copied().collect(), None => BTreeSet::new() };
            let key = format!("{} {} {}", inp, pname, t);
            if want("copy_before") {
                rep.case("copy_before", format!("copy_before {}", key));
                let b = built.clone();
                match guard(move || b.copy_before(|x| pred(*x, t))) {
                    Ok(g) => if !denotes(&g, &before) { rep.fail("copy_before", key.clone(), show_set(&before), show_opt(&g), "wrong"); },
                    Err(e) => rep.fail("copy_before", key.clone(), show_set(&before), e, "panic"),
                }
            }
            if want("drop_before") {
                rep.case("drop_before", format!("drop_before {}", key));
                let b = built.clone();
                match guard(move || b.drop_before(|x| pred(*x, t))) {
                    Ok(g) => if !denotes(&g, &from) { rep.fail("drop_before", key.clone(), show_set(&from), show_opt(&g), "wrong"); },
                    Err(e) => rep.fail("drop_before", key.clone(), show_set(&from), e, "panic"),
                }
            }
        }
    }
}

fn binary(rep: &mut Report, a: &D, b: &D, only: Option<&str>) {
    let want = |f: &str| only.map_or(true, |o| o == f);
    let inp = format!("{} {}", a.show(), b.show());
    let (fa, fb) = match guard({ let a = a.clone(); let b = b.clone(); move || (a.build(), b.build()) }) { Ok(x) => x, Err(_) => return };
    if a.wide() || b.wide() {
        // only the non-iterating operation: intersect (interval x interval, sparse x interval)
        if want("intersect") {
            rep.case("intersect", format!("intersect {}", inp));
            let (x, y) = (fa.clone(), fb.clone());
            match guard(move || x.intersect(&y)) {
                Ok(g) => {
                    // compare symbolically on the probes of both operands' ends
                    let ok = match (&g, a, b) {
                        (None, _, _) => match (a, b) {
                            (D::I(a1, b1), D::I(a2, b2)) => a1.max(a2) > b1.min(b2),
                            (D::S(v), o) | (o, D::S(v)) => v.iter().all(|x| !o.has(*x)),
                        },
                        (Some(d), D::I(a1, b1), D::I(a2, b2)) => d.min() == *a1.max(a2) && d.max() == *b1.min(b2) && a1.max(a2) <= b1.min(b2),
                        (Some(d), D::S(v), o) | (Some(d), o, D::S(v)) => {
                            let want: BTreeSet<isize> = v.iter().copied().filter(|x| o.has(*x)).collect();
                            denotes(&Some(d.clone()), &want)
                        }
                    };
                    if !ok { rep.fail("intersect", inp.clone(), "set intersection".into(), format!("{:?}", g.as_ref().map(|d| (d.min(), d.max()))), "wrong"); }
                }
                Err(e) => rep.fail("intersect", inp.clone(), "set intersection".into(), e, "panic"),
            }
        }
        return;
    }
    let (sa, sb) = (a.set(), b.set());
    let inter: BTreeSet<isize> = sa.intersection(&sb).copied().collect();
    let diff: BTreeSet<isize> = sa.difference(&sb).copied().collect();
    if want("intersect") {
        rep.case("intersect", format!("intersect {}", inp));
        let (x, y) = (fa.clone(), fb.clone());
        match guard(move || x.intersect(&y)) {
            Ok(g) => if !denotes(&g, &inter) { rep.fail("intersect", inp.clone(), show_set(&inter), show_opt(&g), "wrong"); },
            Err(e) => rep.fail("intersect", inp.clone(), show_set(&inter), e, "panic"),
        }
    }
    if want("diff") {
        rep.case("diff", format!("diff {}", inp));
        let (x, y) = (fa.clone(), fb.clone());
        match guard(move || x.diff(&y)) {
            Ok(g) => if !denotes(&g, &diff) { rep.fail("diff", inp.clone(), show_set(&diff), show_opt(&g), "wrong"); },
            Err(e) => rep.fail("diff", inp.clone(), show_set(&diff), e, "panic"),
        }
    }
    if want("is_disjoint") {
        rep.case("is_disjoint", format!("is_disjoint {}", inp));
        let (x, y) = (fa.clone(), fb.clone());
        match guard(move || x.is_disjoint(&y)) {
            Ok(g) => if g != inter.is_empty() { rep.fail("is_disjoint", inp.clone(), inter.is_empty().to_string(), g.to_string(), "wrong"); },
            Err(e) => rep.fail("is_disjoint", inp.clone(), inter.is_empty().to_string(), e, "panic"),
        }
    }
    if want("eq") {
        rep.case("eq", format!("eq {}", inp));
        let (x, y) = (fa.clone(), fb.clone());
        match guard(move || x == y) {
            Ok(g) => if g != (sa == sb) { rep.fail("eq", inp.clone(), (sa == sb).to_string(), g.to_string(), "wrong"); },
            Err(e) => rep.fail("eq", inp.clone(), (sa == sb).to_string(), e, "panic"),
        }
    }
}

pub fn search(tier: &str, only: Option<&str>) {
    let (ds, probes, bound) = universe(tier);
    let mut rep = Report::new("fd", &bound);
    for d in &ds { unary(&mut rep, d, &probes, only); }
    // pairs: all (quick: sparse len<=3 to keep it short)
    let lim = if tier == "thorough" { 6 } else { 3 };
    let small: Vec<&D> = ds.iter().filter(|d| match d { D::S(v) => v.len() <= lim, _ => true }).collect();
    for a in &small { for b in &small { binary(&mut rep, a, b, only); } }
    rep.print();
}

pub fn replay(input: &str) {
    // input: "<fn> <D> [<D>|<probe>]"  – re-run everything for the named domain(s)
    let parts: Vec<&str> = input.split_whitespace().collect();
    let mut rep = Report::new("fd", "replay");
    let (_, probes, _) = universe("thorough");
    let ds: Vec<D> = parts.iter().filter(|p| p.starts_with("I:") || p.starts_with("S:")).map(|p| D::parse(p)).collect();
    if ds.len() == 1 { unary(&mut rep, &ds[0], &probes, None); }
    if ds.len() == 2 { binary(&mut rep, &ds[0], &ds[1], None); }
    rep.print();
}
