//! Harness `diseq` (C02, bounded): small pure tree programs (==, !=, conjunction, one disjunction, a hidden fresh
//! variable) run through the public query path (`proto_vulcan_query!` -> ResultIterator::next -> LResult term +
//! LResult.1 reified disequalities), in EVERY permutation of their conjuncts.  The ground instances of the answers
//! (free variables instantiated consistently with the attached disequalities) are compared with the ground solutions
//! of the program, both enumerated over a finite universe closed under sub-terms.
//!
//! Universe U: atoms 1 2 7 8 (7, 8 never occur in programs), [] and a few short proper lists; plus every ground
//! sub-term of the program.  A query variable ranges over U; the hidden variable over U and over the program's
//! sub-terms instantiated with the query variables' values (so that a witness forced by an equation is available).
use crate::util::*;
use proto_vulcan::prelude::*;
use proto_vulcan::relation::diseq::DisequalityConstraint;
use proto_vulcan::operator::conj::Conj;
use std::cell::RefCell;

type U = DefaultUser;
type E = DefaultEngine<DefaultUser>;
type T = LTerm<U, E>;
const NV: usize = 3; // x0, x1 query variables; x2 hidden

#[derive(Clone, Debug, PartialEq, Eq, Hash, PartialOrd, Ord)]
pub enum P { V(usize), N(isize), Nil, Cons(Box<P>, Box<P>), /** a Rust tuple as a compound term */ Tup(Box<P>, Box<P>) }
#[derive(Clone, Debug, PartialEq)]
pub enum A { Eq(P, P), Ne(P, P), Or(Vec<A>, Vec<A>) }

fn list(v: Vec<P>) -> P { v.into_iter().rev().fold(P::Nil, |t, h| P::Cons(Box::new(h), Box::new(t))) }
fn showp(p: &P) -> String {
    match p {
        P::V(i) => format!("x{}", i), P::N(k) => k.to_string(), P::Nil => "[]".into(),
        P::Tup(a, b) => format!("<{}:{}>", showp(a), showp(b)),
        P::Cons(..) => {
            let mut s = String::from("["); let mut cur = p; let mut first = true;
            loop { match cur { P::Cons(h, t) => { if !first { s.push(','); } first = false; s += &showp(h); cur = t; } P::Nil => break, o => { s.push('|'); s += &showp(o); break; } } }
            s.push(']'); s
        }
    }
}
fn showa(a: &A) -> String {
    match a {
        A::Eq(l, r) => format!("eq({};{})", showp(l), showp(r)), A::Ne(l, r) => format!("ne({};{})", showp(l), showp(r)),
        A::Or(l, r) => format!("or({}/{})", l.iter().map(showa).collect::<Vec<_>>().join("&"), r.iter().map(showa).collect::<Vec<_>>().join("&")),
    }
}
fn show(p: &[A]) -> String { p.iter().map(showa).collect::<Vec<_>>().join(" ") }

// ---- parser for the replay input ----
struct Ps<'a> { s: &'a [u8], i: usize }
impl<'a> Ps<'a> {
    fn peek(&self) -> u8 { if self.i < self.s.len() { self.s[self.i] } else { 0 } }
    fn eat(&mut self, c: u8) { assert_eq!(self.peek(), c, "parse error at {}", self.i); self.i += 1; }
    fn term(&mut self) -> P {
        match self.peek() {
            b'x' => { self.i += 1; let d = (self.peek() - b'0') as usize; self.i += 1; P::V(d) }
            b'<' => { self.i += 1; let a = self.term(); self.eat(b':'); let b = self.term(); self.eat(b'>'); P::Tup(Box::new(a), Box::new(b)) }
            b'[' => {
                self.i += 1;
                let mut items = vec![]; let mut tail = P::Nil;
                if self.peek() == b']' { self.i += 1; return P::Nil; }
                loop {
                    items.push(self.term());
                    match self.peek() { b',' => { self.i += 1; } b'|' => { self.i += 1; tail = self.term(); self.eat(b']'); break; } _ => { self.eat(b']'); break; } }
                }
                items.into_iter().rev().fold(tail, |t, h| P::Cons(Box::new(h), Box::new(t)))
            }
            _ => { let st = self.i; if self.peek() == b'-' { self.i += 1; } while self.peek().is_ascii_digit() { self.i += 1; } P::N(std::str::from_utf8(&self.s[st..self.i]).unwrap().parse().unwrap()) }
        }
    }
    fn atom(&mut self) -> A {
        let kind = [self.s[self.i], self.s[self.i + 1]]; self.i += 2; self.eat(b'(');
        if &kind == b"or" {
            let mut l = vec![self.atom()]; while self.peek() == b'&' { self.i += 1; l.push(self.atom()); }
            self.eat(b'/');
            let mut r = vec![self.atom()]; while self.peek() == b'&' { self.i += 1; r.push(self.atom()); }
            self.eat(b')'); A::Or(l, r)
        } else {
            let l = self.term(); self.eat(b';'); let r = self.term(); self.eat(b')');
            if &kind == b"eq" { A::Eq(l, r) } else { A::Ne(l, r) }
        }
    }
}
fn parse(s: &str) -> Vec<A> { s.split(' ').filter(|x| !x.is_empty()).map(|x| { let mut p = Ps { s: x.as_bytes(), i: 0 }; p.atom() }).collect() }

// ---- the oracle: ground evaluation ----
fn inst(p: &P, asg: &[P]) -> P { match p { P::V(i) => asg[*i].clone(), P::Cons(h, t) => P::Cons(Box::new(inst(h, asg)), Box::new(inst(t, asg))), P::Tup(h, t) => P::Tup(Box::new(inst(h, asg)), Box::new(inst(t, asg))), o => o.clone() } }
fn holds(a: &A, asg: &[P]) -> bool {
    match a { A::Eq(l, r) => inst(l, asg) == inst(r, asg), A::Ne(l, r) => inst(l, asg) != inst(r, asg), A::Or(l, r) => l.iter().all(|x| holds(x, asg)) || r.iter().all(|x| holds(x, asg)) }
}
fn has_var(p: &P, v: usize) -> bool { match p { P::V(i) => *i == v, P::Cons(h, t) | P::Tup(h, t) => has_var(h, v) || has_var(t, v), _ => false } }
fn is_ground(p: &P) -> bool { match p { P::V(_) => false, P::Cons(h, t) | P::Tup(h, t) => is_ground(h) && is_ground(t), _ => true } }
fn subterms(p: &P, out: &mut Vec<P>) { out.push(p.clone()); if let P::Cons(h, t) | P::Tup(h, t) = p { subterms(h, out); subterms(t, out); } }
fn atoms_terms(a: &A, out: &mut Vec<P>) { match a { A::Eq(l, r) | A::Ne(l, r) => { subterms(l, out); subterms(r, out); } A::Or(l, r) => { for x in l.iter().chain(r.iter()) { atoms_terms(x, out); } } } }

fn universe(prog: &[A]) -> (Vec<P>, Vec<P>) {
    let n = |k| P::N(k);
    let mut u = vec![n(1), n(2), n(7), n(8), P::Nil, list(vec![n(1)]), list(vec![n(2)]), list(vec![n(7)]), list(vec![n(1), n(2)]), list(vec![n(2), n(1)]), list(vec![n(1), n(7)]), list(vec![list(vec![n(1)])]), P::Tup(Box::new(n(1)), Box::new(n(2))), P::Tup(Box::new(n(7)), Box::new(n(1)))];
    let mut st = vec![]; for a in prog { atoms_terms(a, &mut st); }
    for t in &st { if is_ground(t) && !u.contains(t) { u.push(t.clone()); } }
    st.sort(); st.dedup();
    (u, st)
}

/// ground solutions projected on (x0, x1)
fn solutions(prog: &[A], u: &[P], st: &[P]) -> Vec<(P, P)> {
    let pats: Vec<&P> = st.iter().filter(|t| !has_var(t, 2)).collect();
    let mut out = vec![];
    for a in u { for b in u {
        let mut cands: Vec<P> = u.to_vec();
        for t in &pats { let g = inst(t, &[a.clone(), b.clone(), P::Nil]); if !cands.contains(&g) { cands.push(g); } }
        if cands.iter().any(|c| { let asg = [a.clone(), b.clone(), c.clone()]; prog.iter().all(|x| holds(x, &asg)) }) { out.push((a.clone(), b.clone())); }
    } }
    out.sort(); out.dedup(); out
}

// ---- the real run ----
thread_local! { static PROG: RefCell<Vec<A>> = RefCell::new(vec![]); }
fn build_term(p: &P, vars: &[T]) -> T { match p { P::V(i) => vars[*i].clone(), P::N(k) => LTerm::from(*k), P::Nil => LTerm::empty_list(), P::Cons(h, t) => LTerm::cons(build_term(h, vars), build_term(t, vars)), P::Tup(a, b) => (build_term(a, vars), build_term(b, vars)).into() } }
fn build_atom(a: &A, vars: &[T]) -> Goal<U, E> {
    match a {
        A::Eq(l, r) => { let (l, r) = (build_term(l, vars), build_term(r, vars)); proto_vulcan!(l == r) }
        A::Ne(l, r) => { let (l, r) = (build_term(l, vars), build_term(r, vars)); proto_vulcan!(l != r) }
        A::Or(l, r) => {
            let lg: Vec<Goal<U, E>> = l.iter().map(|x| build_atom(x, vars)).collect();
            let rg: Vec<Goal<U, E>> = r.iter().map(|x| build_atom(x, vars)).collect();
            let (lc, rc): (Goal<U, E>, Goal<U, E>) = (Conj::from_vec(lg), Conj::from_vec(rg));
            proto_vulcan!(conde { lc, rc })
        }
    }
}
fn dynprog(x0: T, x1: T) -> Goal<U, E> {
    let z: T = LTerm::var("z");
    let vars = [x0, x1, z];
    let goals: Vec<Goal<U, E>> = PROG.with(|p| p.borrow().iter().map(|a| build_atom(a, &vars)).collect());
    Conj::from_vec(goals)
}

/// an answer as observed: patterns of x0 and x1 over free variables 0.., and the disequalities (each a list of
/// pairs that must not all be equal)
#[derive(Debug, Clone)]
struct Ans { x: [P; 2], nfree: usize, diseqs: Vec<Vec<(P, P)>>, text: String, c03: Vec<(&'static str, String)> }

fn to_pat(t: &T, free: &mut Vec<T>) -> Result<P, String> {
    use proto_vulcan::lterm::LTermInner;
    match t.as_ref() {
        LTermInner::Var(_, _) => { let i = match free.iter().position(|f| f == t) { Some(i) => i, None => { free.push(t.clone()); free.len() - 1 } }; Ok(P::V(i)) }
        LTermInner::Empty => Ok(P::Nil),
        LTermInner::Cons(h, tl) => Ok(P::Cons(Box::new(to_pat(h, free)?), Box::new(to_pat(tl, free)?))),
        LTermInner::Compound(c) => {
            let kids: Vec<&T> = c.children().filter_map(|ch| ch.as_term()).collect();
            if kids.len() != 2 { return Err(format!("unexpected compound {}", t)); }
            Ok(P::Tup(Box::new(to_pat(kids[0], free)?), Box::new(to_pat(kids[1], free)?)))
        }
        _ => match t.get_number() { Some(k) => Ok(P::N(k)), None => Err(format!("unexpected term {}", t)) },
    }
}

fn run_real(prog: &[A]) -> Result<Vec<Ans>, String> {
    PROG.with(|p| *p.borrow_mut() = prog.to_vec());
    let query = proto_vulcan_query!(|x0, x1| { dynprog(x0, x1) });
    let mut out = vec![];
    for r in query.run() {
        if out.len() > 200 { return Err("more than 200 answers".into()); }
        let mut free: Vec<T> = vec![];
        let x = [to_pat(&r.x0.0, &mut free)?, to_pat(&r.x1.0, &mut free)?];
        let nq = free.len();
        let mut diseqs = vec![];
        for c in r.x0.1.iter() {
            if let Some(d) = c.downcast_ref::<DisequalityConstraint<U, E>>() {
                let mut pairs = vec![];
                for (k, v) in d.smap_ref().iter() { pairs.push((to_pat(k, &mut free)?, to_pat(v, &mut free)?)); }
                pairs.sort();
                diseqs.push(pairs);
            }
        }
        diseqs.sort();
        // variables of the answer's terms are printed as a0.., variables that occur only in constraints as h0..
        let text = format!("x0={} x1={} where {:?}", showp(&x[0]).replace('x', "v"), showp(&x[1]).replace('x', "v"),
                           diseqs.iter().map(|d| d.iter().map(|(k, v)| format!("{}!={}", showp(k).replace('x', "v"), showp(v).replace('x', "v"))).collect::<Vec<_>>().join(" or ")).collect::<Vec<_>>());
        let _ = nq;
        // ---- C03: the answer is closed and carries its relevant constraints
        let mut c03: Vec<(&'static str, String)> = vec![];
        fn vars_of(t: &T, out: &mut Vec<T>) {
            use proto_vulcan::lterm::LTermInner;
            match t.as_ref() { LTermInner::Var(_, _) => if !out.contains(t) { out.push(t.clone()) }, LTermInner::Cons(h, tl) => { vars_of(h, out); vars_of(tl, out); }
                LTermInner::Compound(c) => { for ch in c.children() { if let Some(k) = ch.as_term() { vars_of(k, out); } } } _ => {} }
        }
        let mut term_vars: Vec<T> = vec![];
        vars_of(&r.x0.0, &mut term_vars); vars_of(&r.x1.0, &mut term_vars);
        // (a) every variable left in an answer term is a reified `_` variable
        if let Some(v) = term_vars.iter().find(|v| !v.is_any()) { c03.push(("unreified-term", format!("{:?} in the answer terms", v))); }
        // (b) the reported constraints mention only reified variables of this answer
        for c in r.x0.1.iter() {
            if let Some(d) = c.downcast_ref::<DisequalityConstraint<U, E>>() {
                let mut cv: Vec<T> = vec![];
                for (k, v) in d.smap_ref().iter() { vars_of(k, &mut cv); vars_of(v, &mut cv); }
                if let Some(v) = cv.iter().find(|v| !v.is_any()) { c03.push(("raw-variable-in-constraint", format!("{:?} in {:?}", v, d.smap_ref()))); }
                else if let Some(v) = cv.iter().find(|v| !term_vars.contains(v)) { c03.push(("foreign-variable-in-constraint", format!("{:?} (not in the answer terms) in {:?}", v, d.smap_ref()))); }
            }
        }
        // (d) asking a result for its constraints returns every reported constraint that mentions a reified variable
        // occurring (at any depth) in that result
        for (name, res) in [("x0", &r.x0), ("x1", &r.x1)] {
            let mut mine: Vec<T> = vec![]; vars_of(&res.0, &mut mine);
            let got: Vec<String> = { let mut g: Vec<String> = res.constraints().map(|c| format!("{:?}", c)).collect(); g.sort(); g };
            let mut want: Vec<String> = vec![];
            for c in res.1.iter() {
                if let Some(d) = c.downcast_ref::<DisequalityConstraint<U, E>>() {
                    let mut cv: Vec<T> = vec![];
                    for (k, v) in d.smap_ref().iter() { vars_of(k, &mut cv); vars_of(v, &mut cv); }
                    if cv.iter().any(|v| mine.contains(v)) { want.push(format!("{:?}", c)); }
                }
            }
            want.sort();
            if got != want { c03.push(("relevant", format!("{}: constraints() gives {:?}, the constraints that mention a variable of {} are {:?}", name, got, res.0, want))); }
        }
        out.push(Ans { x, nfree: free.len(), diseqs, text, c03 });
    }
    Ok(out)
}

/// ground instances of the answers, restricted to U x U
fn instances(answers: &[Ans], u: &[P]) -> Result<Vec<(P, P)>, String> {
    let mut out = vec![];
    for a in answers {
        if a.nfree > 4 { return Err(format!("answer with {} free variables", a.nfree)); }
        let mut idx = vec![0usize; a.nfree];
        loop {
            let asg: Vec<P> = idx.iter().map(|i| u[*i].clone()).collect();
            let ok = a.diseqs.iter().all(|d| !d.iter().all(|(k, v)| inst(k, &asg) == inst(v, &asg)));
            if ok { let (p, q) = (inst(&a.x[0], &asg), inst(&a.x[1], &asg)); if u.contains(&p) && u.contains(&q) { out.push((p, q)); } }
            let mut k = 0;
            loop { if k == idx.len() { break; } idx[k] += 1; if idx[k] < u.len() { break; } idx[k] = 0; k += 1; }
            if k == idx.len() { break; }
        }
    }
    out.sort(); out.dedup();
    Ok(out)
}

/// None: the two runs agree.  "form": the same answers, one by one, with the same ground instances, but a disequality is
/// reported as a different (equivalent over the universe) set of pairs.  "order": the same answers in another order.
/// "answers": anything else.
fn compare_runs(a: &[Ans], b: &[Ans], u: &[P]) -> Option<&'static str> {
    let ta: Vec<&String> = a.iter().map(|x| &x.text).collect();
    let tb: Vec<&String> = b.iter().map(|x| &x.text).collect();
    if ta == tb { return None; }
    let sig = |x: &Ans| -> (String, String, Vec<(P, P)>) { (showp(&x.x[0]), showp(&x.x[1]), instances(std::slice::from_ref(x), u).unwrap_or_default()) };
    let sa: Vec<_> = a.iter().map(sig).collect();
    let sb: Vec<_> = b.iter().map(sig).collect();
    if sa == sb { return Some("form"); }
    let (mut x, mut y) = (sa.clone(), sb.clone()); x.sort(); y.sort();
    if x == y { Some("order") } else { Some("answers") }
}

fn permutations(n: usize) -> Vec<Vec<usize>> {
    fn rec(cur: &mut Vec<usize>, used: &mut Vec<bool>, n: usize, out: &mut Vec<Vec<usize>>) {
        if cur.len() == n { out.push(cur.clone()); return; }
        for i in 0..n { if !used[i] { used[i] = true; cur.push(i); rec(cur, used, n, out); cur.pop(); used[i] = false; } }
    }
    let mut out = vec![]; rec(&mut vec![], &mut vec![false; n], n, &mut out); out
}

fn class(prog: &[A]) -> &'static str {
    let mut st = vec![]; for a in prog { atoms_terms(a, &mut st); }
    let nne = prog.iter().filter(|a| matches!(a, A::Ne(..))).count();
    if prog.iter().any(|a| matches!(a, A::Or(..))) { "disjunction" } else if st.iter().any(|t| has_var(t, 2)) { "hidden-variable" } else if nne >= 2 { "several-disequalities" } else { "plain" }
}

fn check_one(rep: &mut Report, prog: &[A], all_perms: bool) {
    let (u, st) = universe(prog);
    let exp = solutions(prog, &u, &st);
    let perms = if all_perms { permutations(prog.len()) } else { vec![(0..prog.len()).collect()] };
    let cls = class(prog);
    for pm in perms {
        let p: Vec<A> = pm.iter().map(|i| prog[*i].clone()).collect();
        let inp = show(&p);
        rep.case("tree-program", inp.clone());
        let p2 = p.clone();
        match guard_timeout(move || run_real(&p2), 20) {
            Err(e) if e == "TIMEOUT" => { rep.fail("tree-program", inp, "termination".into(), "no result within 20 s".into(), "diverges"); rep.print(); std::process::exit(0); }
            Err(e) => rep.fail("tree-program", inp, format!("{} ground solutions", exp.len()), e, "panic"),
            Ok(Err(e)) => rep.fail("tree-program", inp, format!("{} ground solutions", exp.len()), e, cls),
            Ok(Ok(answers)) => {
                // C03: closed answers with their relevant constraints
                rep.case("reified", inp.clone());
                for a in &answers { for (cl, what) in &a.c03 { rep.fail("reified", inp.clone(), "an answer over reified variables only, whose results return every constraint that mentions them".into(), format!("{}; answer {}", what, a.text), cl); } }
                // C09 (deterministic): a second run gives the same sequence of answers (up to the order inside the
                // constraint sets, which `text` has sorted, and the numbering of reified variables, which it hides)
                rep.case("determinism", inp.clone());
                let p3 = p.clone();
                if let Ok(Ok(again)) = guard_timeout(move || run_real(&p3), 20) {
                    if let Some(cl) = compare_runs(&answers, &again, &u) {
                        rep.fail("determinism", inp.clone(), format!("{:?}", answers.iter().map(|x| x.text.clone()).collect::<Vec<_>>()), format!("{:?}", again.iter().map(|x| x.text.clone()).collect::<Vec<_>>()), cl);
                    }
                }
                match instances(&answers, &u) {
                    Err(e) => rep.fail("tree-program", inp, "answers over at most 4 free variables".into(), e, cls),
                    Ok(got) => {
                        if got != exp {
                            let extra: Vec<String> = got.iter().filter(|g| !exp.contains(g)).take(3).map(|(a, b)| format!("({},{})", showp(a), showp(b))).collect();
                            let missing: Vec<String> = exp.iter().filter(|g| !got.contains(g)).take(3).map(|(a, b)| format!("({},{})", showp(a), showp(b))).collect();
                            rep.fail("tree-program", inp, format!("{} ground solutions (x0,x1) over the universe", exp.len()),
                                     format!("{} instances; not solutions: {:?}; solutions without an answer: {:?}; answers: {:?}", got.len(), extra, missing, answers.iter().map(|a| a.text.clone()).collect::<Vec<_>>()), cls);
                        }
                    }
                }
            }
        }
    }
}

struct Rng(u64);
impl Rng { fn next(&mut self) -> u64 { self.0 ^= self.0 << 13; self.0 ^= self.0 >> 7; self.0 ^= self.0 << 17; self.0 } fn below(&mut self, n: usize) -> usize { (self.next() % n as u64) as usize } }

fn gen_leaf(r: &mut Rng) -> P { match r.below(6) { 0 | 1 | 2 => P::V(r.below(NV)), 3 => P::N(1), 4 => P::N(2), _ => P::Nil } }
fn gen_term(r: &mut Rng) -> P {
    match r.below(10) {
        // nested lists: a variable or constant at depth two
        8 => if r.below(2) == 0 { P::Tup(Box::new(gen_leaf(r)), Box::new(gen_leaf(r))) } else { list(vec![list(vec![gen_leaf(r)])]) },
        9 => if r.below(2) == 0 { list(vec![gen_leaf(r), list(vec![gen_leaf(r)])]) } else { list(vec![list(vec![gen_leaf(r)]), gen_leaf(r)]) },
        0 | 1 | 2 | 3 => gen_leaf(r),
        4 => list(vec![gen_leaf(r)]),
        5 | 6 => list(vec![gen_leaf(r), gen_leaf(r)]),
        _ => P::Cons(Box::new(gen_leaf(r)), Box::new(P::V(r.below(NV)))),
    }
}
fn gen_simple(r: &mut Rng) -> A {
    let l = if r.below(3) > 0 { P::V(r.below(NV)) } else { gen_term(r) };
    let rt = gen_term(r);
    if r.below(2) == 0 { A::Eq(l, rt) } else { A::Ne(l, rt) }
}
fn gen(r: &mut Rng) -> Vec<A> {
    let n = 2 + r.below(3);
    let mut p: Vec<A> = (0..n).map(|_| gen_simple(r)).collect();
    if r.below(4) == 0 { let k = r.below(p.len()); p[k] = A::Or((0..1 + r.below(2)).map(|_| gen_simple(r)).collect(), (0..1 + r.below(2)).map(|_| gen_simple(r)).collect()); }
    p
}

fn fixed() -> Vec<Vec<A>> {
    let v = P::V; let n = P::N;
    vec![
        // the example of the property text: the stronger disequality must survive normalisation
        vec![A::Ne(v(0), n(1)), A::Ne(list(vec![v(0), v(1)]), list(vec![n(1), n(2)])), A::Eq(v(0), n(1)), A::Eq(v(1), n(7))],
        vec![A::Ne(v(0), n(1)), A::Ne(list(vec![v(0), v(1)]), list(vec![n(1), n(2)]))],
        vec![A::Ne(list(vec![v(0), v(1)]), list(vec![v(2), v(2)])), A::Eq(v(0), n(1)), A::Eq(v(1), n(2))],
        vec![A::Ne(list(vec![v(0), v(1)]), list(vec![v(2), v(2)])), A::Eq(v(2), n(1))],
        vec![A::Ne(v(0), list(vec![n(1), v(2)])), A::Eq(v(2), n(2))],
        vec![A::Ne(v(0), list(vec![n(1), v(2)])), A::Eq(v(1), v(2))],
        vec![A::Ne(v(0), list(vec![v(1), list(vec![v(2)])])), A::Eq(v(1), n(1)), A::Eq(v(2), n(2))],
        vec![A::Ne(v(0), v(1)), A::Eq(v(0), v(2)), A::Eq(v(2), n(1))],
        vec![A::Ne(v(2), n(1)), A::Ne(list(vec![v(0), v(1)]), list(vec![n(1), n(2)])), A::Ne(v(0), n(1)), A::Eq(v(2), n(2))],
        vec![A::Ne(v(0), n(1)), A::Ne(v(0), n(2)), A::Ne(v(1), v(0)), A::Or(vec![A::Eq(v(1), n(1))], vec![A::Eq(v(1), n(2))])],
        vec![A::Eq(v(0), list(vec![v(2), n(1)])), A::Ne(v(2), n(1)), A::Ne(v(1), v(2))],
        vec![A::Ne(P::Cons(Box::new(n(1)), Box::new(v(0))), list(vec![n(1), n(2)])), A::Eq(v(1), v(0))],
        // a constrained variable in a nested list that is not the first element; a compound with two unbound variables
        vec![A::Eq(v(0), list(vec![n(1), list(vec![v(1)])])), A::Ne(v(1), n(2))],
        vec![A::Eq(v(0), list(vec![n(1), list(vec![n(2), v(2)])])), A::Ne(v(2), n(1)), A::Eq(v(1), v(2))],
        vec![A::Eq(v(0), P::Tup(Box::new(v(1)), Box::new(v(2))))],
        vec![A::Eq(v(0), P::Tup(Box::new(v(2)), Box::new(v(1)))), A::Ne(v(2), n(1))],
        vec![A::Eq(v(0), list(vec![P::Tup(Box::new(v(2)), Box::new(n(1))), v(1)]))],
        // a tuple (compound term): a constrained variable inside it, a disequality between tuples
        vec![A::Eq(v(0), P::Tup(Box::new(v(2)), Box::new(n(1)))), A::Ne(v(2), n(2)), A::Eq(v(1), v(2))],
        vec![A::Eq(v(0), P::Tup(Box::new(v(1)), Box::new(n(1)))), A::Ne(v(1), n(2))],
        vec![A::Ne(P::Tup(Box::new(v(0)), Box::new(v(1))), P::Tup(Box::new(n(1)), Box::new(n(2)))), A::Eq(v(0), n(1))],
        vec![A::Ne(v(0), P::Tup(Box::new(n(1)), Box::new(v(2)))), A::Eq(v(1), v(2))],
        // variables below the first level of a list
        vec![A::Ne(list(vec![list(vec![v(0)]), n(1)]), list(vec![list(vec![n(2)]), n(1)])), A::Eq(v(0), n(2))],
        vec![A::Ne(list(vec![list(vec![v(0)])]), list(vec![list(vec![v(1)])])), A::Eq(v(0), v(1))],
        vec![A::Ne(list(vec![list(vec![v(0)])]), list(vec![list(vec![v(2)])])), A::Eq(v(2), n(1)), A::Eq(v(0), n(1))],
    ]
}

pub fn search(tier: &str, seed: u64, only: Option<&str>) {
    let n = if tier == "thorough" { 6000 } else { 700 };
    let mut rep = Report::new("diseq", &format!("{} generated pure tree programs (2-4 conjuncts of ==/!= over x0,x1 and a hidden variable, terms of depth <= 3 incl. nested lists and improper list patterns, at most one 2-branch conde), each in EVERY permutation of its conjuncts, + fixed shapes; ground instances over a 12+ element sub-term-closed universe (seed {})", n, seed));
    for p in fixed() { if only.map_or(true, |o| show(&p).contains(o)) { check_one(&mut rep, &p, true); } }
    // C09 probe: a program on which the FORM of the reported disequality is known to depend on hash iteration order
    // (known finding); run up to 40 times so that the dependence shows reliably
    if only.is_none() { probe(&mut rep, "ne(x2;2) ne([x1];[x0|x0])"); }
    let mut r = Rng(0xD1B54A32D192ED03 ^ (seed.wrapping_mul(0x2545F4914F6CDD1D)) | 1);
    for _ in 0..n { let p = gen(&mut r); check_one(&mut rep, &p, true); }
    rep.print();
}

fn probe(rep: &mut Report, txt: &str) {
    let prog = parse(txt);
    let (u, _) = universe(&prog);
    rep.case("determinism", format!("probe {}", txt));
    if let Ok(first) = run_real(&prog) {
        for _ in 0..40 {
            if let Ok(again) = run_real(&prog) {
                if let Some(cl) = compare_runs(&first, &again, &u) {
                    rep.fail("determinism", txt.to_string(), format!("{:?}", first.iter().map(|x| x.text.clone()).collect::<Vec<_>>()), format!("{:?}", again.iter().map(|x| x.text.clone()).collect::<Vec<_>>()), cl);
                    break;
                }
            }
        }
    }
}

pub fn replay(input: &str) {
    let body = input.splitn(2, ' ').nth(1).unwrap_or(input);
    let body = if input.starts_with("eq(") || input.starts_with("ne(") || input.starts_with("or(") { input } else { body };
    let prog = parse(body);
    let mut rep = Report::new("diseq", "replay");
    if input.starts_with("determinism ") { probe(&mut rep, body); }
    check_one(&mut rep, &prog, false);
    rep.print();
}
