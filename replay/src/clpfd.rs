//! Executable twin of the `clpfd` unit: finite-domain programs (domains, plusfd/minusfd/timesfd/
//! ltefd/ltfd/diseqfd/distinctfd, ==, in every posting order, with operand aliasing and constants)
//! run by the real solver with labeling, against brute-force enumeration of the domain product.
//!   soundness  (C16): every answer is inside the domains and satisfies every posted constraint
//!   completeness (C17): every solution is returned, exactly once
use crate::util::*;
use proto_vulcan::engine::DefaultEngine;
use proto_vulcan::goal::Goal;
use proto_vulcan::lterm::LTerm;
use proto_vulcan::operator::conj::Conj;
use proto_vulcan::relation::clpfd::diseqfd::diseqfd;
use proto_vulcan::relation::clpfd::distinctfd::distinctfd;
use proto_vulcan::relation::clpfd::infd::{infd, infdrange};
use proto_vulcan::relation::clpfd::ltefd::ltefd;
use proto_vulcan::relation::clpfd::ltfd::ltfd;
use proto_vulcan::relation::clpfd::minusfd::minusfd;
use proto_vulcan::relation::clpfd::plusfd::plusfd;
use proto_vulcan::relation::clpfd::timesfd::timesfd;
use proto_vulcan::relation::eq::Eq;
use proto_vulcan::solver::Solver;
use proto_vulcan::state::{reify, State};
use proto_vulcan::user::DefaultUser;
use proto_vulcan::GoalCast;

type U = DefaultUser;
type E = DefaultEngine<DefaultUser>;
type T = LTerm<U, E>;
const NV: usize = 3;

#[derive(Clone, Copy, Debug, PartialEq)]
pub enum A { V(usize), K(isize) }
impl A {
    fn show(&self) -> String { match self { A::V(v) => format!("x{}", v), A::K(k) => k.to_string() } }
    fn val(&self, asg: &[isize]) -> isize { match self { A::V(v) => asg[*v], A::K(k) => *k } }
}
#[derive(Clone, Debug, PartialEq)]
pub enum C {
    Dom(usize, Vec<isize>),       // sparse or interval (ascending listing; interval if contiguous & flag)
    DomR(usize, isize, isize),
    Plus(A, A, A), Minus(A, A, A), Times(A, A, A), Lte(A, A), Lt(A, A), Ne(A, A), Distinct(Vec<A>), Eq(A, A),
    /// `[a1, a2] == [b1, b2]`: one unification that binds several variables at once
    EqL(Vec<A>, Vec<A>),
    /// `conde { [a..], [b..] }`: a disjunction of two conjunctions of constraints (C10: what one branch does to a
    /// domain or to a shared constraint object must not be seen by the other)
    Or(Vec<C>, Vec<C>),
}
impl C {
    fn show(&self) -> String {
        match self {
            C::Dom(v, d) => format!("x{}in{{{}}}", v, d.iter().map(|x| x.to_string()).collect::<Vec<_>>().join(" ")),
            C::DomR(v, a, b) => format!("x{}in{}..{}", v, a, b),
            C::Plus(a, b, c) => format!("plus({},{},{})", a.show(), b.show(), c.show()),
            C::Minus(a, b, c) => format!("minus({},{},{})", a.show(), b.show(), c.show()),
            C::Times(a, b, c) => format!("times({},{},{})", a.show(), b.show(), c.show()),
            C::Lte(a, b) => format!("lte({},{})", a.show(), b.show()),
            C::Lt(a, b) => format!("lt({},{})", a.show(), b.show()),
            C::Ne(a, b) => format!("ne({},{})", a.show(), b.show()),
            C::Distinct(v) => format!("distinct({})", v.iter().map(|a| a.show()).collect::<Vec<_>>().join(",")),
            C::Eq(a, b) => format!("eq({},{})", a.show(), b.show()),
            C::EqL(a, b) => format!("eql({}|{})", a.iter().map(|x| x.show()).collect::<Vec<_>>().join(","), b.iter().map(|x| x.show()).collect::<Vec<_>>().join(",")),
            C::Or(a, b) => format!("or({}/{})", a.iter().map(|x| x.show()).collect::<Vec<_>>().join("&"), b.iter().map(|x| x.show()).collect::<Vec<_>>().join("&")),
        }
    }
    /// how many times the assignment is an answer of this constraint: a disjunction answers once per branch that holds
    fn mult(&self, asg: &[isize]) -> usize {
        match self { C::Or(a, b) => (a.iter().all(|k| k.holds(asg)) as usize) + (b.iter().all(|k| k.holds(asg)) as usize), other => other.holds(asg) as usize }
    }
    fn holds(&self, asg: &[isize]) -> bool {
        match self {
            C::Dom(v, d) => d.contains(&asg[*v]),
            C::DomR(v, a, b) => *a <= asg[*v] && asg[*v] <= *b,
            C::Plus(a, b, c) => a.val(asg) + b.val(asg) == c.val(asg),
            C::Minus(a, b, c) => a.val(asg) - b.val(asg) == c.val(asg),
            C::Times(a, b, c) => a.val(asg) * b.val(asg) == c.val(asg),
            C::Lte(a, b) => a.val(asg) <= b.val(asg),
            C::Lt(a, b) => a.val(asg) < b.val(asg),
            C::Ne(a, b) => a.val(asg) != b.val(asg),
            C::Distinct(v) => { let xs: Vec<isize> = v.iter().map(|a| a.val(asg)).collect(); (0..xs.len()).all(|i| (i + 1..xs.len()).all(|j| xs[i] != xs[j])) }
            C::Eq(a, b) => a.val(asg) == b.val(asg),
            C::EqL(a, b) => a.len() == b.len() && a.iter().zip(b.iter()).all(|(x, y)| x.val(asg) == y.val(asg)),
            C::Or(a, b) => a.iter().all(|k| k.holds(asg)) || b.iter().all(|k| k.holds(asg)),
        }
    }
    fn class(&self) -> &'static str {
        let ops: Vec<A> = match self { C::Plus(a, b, c) | C::Minus(a, b, c) | C::Times(a, b, c) => vec![*a, *b, *c], C::Lte(a, b) | C::Lt(a, b) | C::Ne(a, b) | C::Eq(a, b) => vec![*a, *b], C::Distinct(v) => v.clone(), C::EqL(a, b) => a.iter().chain(b.iter()).cloned().collect(), _ => vec![] };
        let vs: Vec<usize> = ops.iter().filter_map(|a| if let A::V(v) = a { Some(*v) } else { None }).collect();
        let mut d = vs.clone(); d.sort(); d.dedup();
        if d.len() < vs.len() { "alias" } else { "plain" }
    }
}

fn term(a: &A, vars: &[T]) -> T { match a { A::V(v) => vars[*v].clone(), A::K(k) => LTerm::from(*k) } }

fn build(prog: &[C], vars: &[T], q: &T, variant: u8) -> Goal<U, E> {
    // the query term: the list [x0, x1, x2], or [(x0, x1), x2] with a compound (tuple) term inside
    let qterm: T = match variant {
        1 => LTerm::from_vec(vec![Into::<T>::into((vars[0].clone(), vars[1].clone())), vars[2].clone()]),
        2 => LTerm::from_vec(vec![Into::<T>::into(Some(Some(Some((vars[0].clone(), vars[1].clone()))))), vars[2].clone()]),
        3 => LTerm::from_vec(vec![vars[0].clone()]),
        // a list inside a compound, and a compound inside a compound
        4 => Into::<T>::into((LTerm::from_vec(vec![vars[0].clone(), vars[1].clone()]), vars[2].clone())),
        5 => Into::<T>::into((Into::<T>::into((vars[0].clone(), vars[1].clone())), vars[2].clone())),
        _ => LTerm::from_vec(vars.to_vec()),
    };
    let mut goals: Vec<Goal<U, E>> = vec![Eq::new::<Goal<U, E>>(q.clone(), qterm).cast_into()];
    for c in prog { goals.push(build_one(c, vars)); }
    goals.push(reify(q.clone()));
    Conj::from_vec(goals)
}

fn build_one(c: &C, vars: &[T]) -> Goal<U, E> {
    {
        let g: Goal<U, E> = match c {
            C::Dom(v, d) => infd::<U, E, Goal<U, E>>(vars[*v].clone(), &d[..]).cast_into(),
            C::DomR(v, a, b) => infdrange::<U, E, Goal<U, E>>(vars[*v].clone(), &(*a..=*b)).cast_into(),
            C::Plus(a, b, c) => plusfd::<U, E, Goal<U, E>>(term(a, vars), term(b, vars), term(c, vars)).cast_into(),
            C::Minus(a, b, c) => minusfd::<U, E, Goal<U, E>>(term(a, vars), term(b, vars), term(c, vars)).cast_into(),
            C::Times(a, b, c) => timesfd::<U, E, Goal<U, E>>(term(a, vars), term(b, vars), term(c, vars)).cast_into(),
            C::Lte(a, b) => ltefd::<U, E, Goal<U, E>>(term(a, vars), term(b, vars)).cast_into(),
            C::Lt(a, b) => ltfd::<U, E, Goal<U, E>>(term(a, vars), term(b, vars)).cast_into(),
            C::Ne(a, b) => diseqfd::<U, E, Goal<U, E>>(term(a, vars), term(b, vars)).cast_into(),
            C::Distinct(v) => distinctfd::<U, E, Goal<U, E>>(LTerm::from_vec(v.iter().map(|a| term(a, vars)).collect())).cast_into(),
            C::Eq(a, b) => Eq::new::<Goal<U, E>>(term(a, vars), term(b, vars)).cast_into(),
            C::EqL(a, b) => Eq::new::<Goal<U, E>>(LTerm::from_vec(a.iter().map(|x| term(x, vars)).collect()), LTerm::from_vec(b.iter().map(|x| term(x, vars)).collect())).cast_into(),
            C::Or(a, b) => {
                let ga: Vec<Goal<U, E>> = a.iter().map(|x| build_one(x, vars)).collect();
                let gb: Vec<Goal<U, E>> = b.iter().map(|x| build_one(x, vars)).collect();
                proto_vulcan::operator::conde::Conde::from_conjunctions(&[&ga[..], &gb[..]]).cast_into()
            }
        };
        g
    }
}

fn run_real(prog: &[C], variant: u8) -> Vec<Vec<Option<isize>>> {
    let vars: Vec<T> = vec![LTerm::var("x0"), LTerm::var("x1"), LTerm::var("x2")];
    let q: T = LTerm::var("q");
    let goal = build(prog, &vars, &q, variant);
    let mut solver: Solver<U, E> = Solver::new((), false);
    let mut stream = solver.start(&goal, State::new(DefaultUser::new()));
    let mut out = vec![];
    while out.len() < 5000 {
        match solver.next(&mut stream) {
            Some(st) => out.push(vars.iter().take(if variant == 3 { 1 } else { NV }).map(|v| st.smap_ref().walk_star(v).get_number()).collect()),
            None => break,
        }
    }
    out
}

fn solutions(prog: &[C], doms: &[Vec<isize>]) -> Vec<Vec<isize>> {
    let mut out = vec![];
    for &a in &doms[0] { for &b in &doms[1] { for &c in &doms[2] {
        let asg = [a, b, c];
        if prog.iter().all(|k| k.holds(&asg)) { let m: usize = prog.iter().map(|k| k.mult(&asg)).product(); for _ in 0..m { out.push(asg.to_vec()); } }
    } } }
    out
}

fn show(prog: &[C]) -> String { prog.iter().map(|c| c.show()).collect::<Vec<_>>().join(";") }

fn check(rep: &mut Report, prog: &[C]) {
    // domain of each variable = intersection of its Dom constraints (every variable has at least one)
    let mut doms: Vec<Vec<isize>> = vec![(-4..=6).collect(); NV];
    for c in prog { match c { C::Dom(v, d) => doms[*v].retain(|x| d.contains(x)), C::DomR(v, a, b) => doms[*v].retain(|x| *a <= *x && *x <= *b), _ => {} } }
    let inp = show(prog);
    let neg = doms.iter().any(|d| d.iter().any(|x| *x < 0)) || prog.iter().any(|c| format!("{:?}", c).contains("K(-"));
    let class = if prog.iter().any(|c| matches!(c, C::Times(..))) && neg { "times-negative" } else if prog.iter().any(|c| matches!(c, C::Times(..))) { "times" } else if prog.iter().any(|c| c.class() == "alias") { "alias" } else { "plain" };
    let exp = solutions(prog, &doms);
    let has_or = prog.iter().any(|c| matches!(c, C::Or(..)));
    for variant in 0u8..6 {
    if has_or && variant != 0 { continue; }
    let vname = ["", " [compound-query]", " [nested-compound-query]", " [hidden-variables]", " [list-in-compound-query]", " [compound-in-compound-query]"][variant as usize];
    let inp = format!("{}{}", inp, vname);
    let class = if variant == 0 { class } else { &vname[2..vname.len() - 1] };
    // with hidden variables only x0 is observed: every value of x0 that extends to a solution, once
    let exp: Vec<Vec<isize>> = if variant == 3 { let mut e: Vec<Vec<isize>> = exp.iter().map(|s| vec![s[0]]).collect(); e.sort(); e.dedup(); e } else { exp.clone() };
    rep.case("fd-program", inp.clone());
    let p = prog.to_vec();
    match guard_timeout(move || run_real(&p, variant), 20) {
        Err(e) if e == "TIMEOUT" => { rep.fail("sound", inp.clone(), "termination".into(), "no result within 20 s".into(), "diverges"); rep.print(); std::process::exit(0); }
        Err(e) => rep.fail("sound", inp.clone(), format!("{} solutions", exp.len()), e, "panic"),
        Ok(got) => {
            // C09 (deterministic): a second run (fresh variables, fresh hash states in the domain and constraint
            // stores, whose iteration order drives propagation and labeling) yields the same SEQUENCE of answers
            if variant == 0 || variant == 3 {
                rep.case("determinism", inp.clone());
                let p2 = prog.to_vec();
                if let Ok(again) = guard_timeout(move || run_real(&p2, variant), 20) {
                    if again != got {
                        // "order": the same answers in another order; "answers": anything else
                        let (mut a, mut b) = (got.clone(), again.clone()); a.sort(); b.sort();
                        rep.fail("determinism", inp.clone(), format!("{:?}", got), format!("{:?}", again), if a == b { "order" } else { "answers" });
                    }
                }
            }
            // soundness: each answer ground, within domains, satisfies all constraints
            for g in &got {
                if g.iter().any(|x| x.is_none()) { rep.fail("complete", inp.clone(), "ground answers (every FD variable labeled)".into(), format!("{:?}", g), class); break; }
                let asg: Vec<isize> = g.iter().map(|x| x.unwrap()).collect();
                if variant != 3 && !prog.iter().all(|k| k.holds(&asg)) { rep.fail("sound", inp.clone(), format!("an assignment satisfying every constraint; solutions are {:?}", exp), format!("{:?}", asg), class); break; }
            }
            if variant == 3 { for g in &got { if let Some(Some(x)) = g.get(0) { if !exp.iter().any(|e| e[0] == *x) { rep.fail("sound", inp.clone(), format!("a value of x0 that extends to a solution: {:?}", exp), format!("{:?}", g), class); break; } } } }
            // completeness + exactly once
            let mut gs: Vec<Vec<isize>> = got.iter().filter(|g| g.iter().all(|x| x.is_some())).map(|g| g.iter().map(|x| x.unwrap()).collect()).collect();
            gs.sort();
            let mut es = exp.clone(); es.sort();
            let mut gd = gs.clone(); gd.dedup();
            if has_or {
                // a disjunction answers an assignment once per branch that holds: compare as multisets
                if es != gs { rep.fail("complete", inp.clone(), format!("{:?}", es), format!("{:?}", gs), "disjunction"); }
            }
            else if gd.len() != gs.len() { rep.fail("complete", inp.clone(), "each solution once".into(), format!("{:?}", gs), class); }
            else if es.iter().any(|s| !gd.contains(s)) { rep.fail("complete", inp.clone(), format!("{:?}", es), format!("{:?}", gd), class); }
        }
    }
    }
}

struct Rng(u64);
impl Rng { fn next(&mut self) -> u64 { self.0 ^= self.0 << 13; self.0 ^= self.0 >> 7; self.0 ^= self.0 << 17; self.0 } fn below(&mut self, n: usize) -> usize { (self.next() % n as u64) as usize } }

fn gen(r: &mut Rng, signed: bool) -> Vec<C> {
    let lo: isize = if signed { -3 } else { 0 };
    let hi: isize = if signed { 3 } else { 5 };
    let mut prog = vec![];
    for v in 0..NV {
        if r.below(3) == 0 {
            let mut d: Vec<isize> = (lo..=hi).filter(|_| r.below(2) == 0).collect();
            if d.is_empty() { d.push(lo + r.below((hi - lo + 1) as usize) as isize); }
            // the list is given to infd as written: unsorted and with a repeated element now and then
            if r.below(2) == 0 { let k = r.below(d.len()); let x = d[k]; d.push(x); for i in (1..d.len()).rev() { let j = r.below(i + 1); d.swap(i, j); } }
            prog.push(C::Dom(v, d));
        } else {
            let a = lo + r.below((hi - lo + 1) as usize) as isize; let b = a + r.below((hi - a + 1) as usize) as isize;
            prog.push(C::DomR(v, a, b));
        }
    }
    let m = 1 + r.below(3);
    for _ in 0..m {
        let c = gen_c(r, lo, hi);
        prog.push(c);
    }
    // now and then a disjunction of two small conjunctions (domains may be narrowed inside a branch)
    if r.below(4) == 0 {
        let mut br = |r: &mut Rng| -> Vec<C> { (0..1 + r.below(2)).map(|_| if r.below(4) == 0 { let v = r.below(NV); let a = lo + r.below((hi - lo + 1) as usize) as isize; let b = a + r.below((hi - a + 1) as usize) as isize; C::DomR(v, a, b) } else { gen_c(r, lo, hi) }).collect() };
        let (a, b) = (br(r), br(r));
        prog.push(C::Or(a, b));
    }
    // random posting order (domains may come after the constraints)
    for i in (1..prog.len()).rev() { let j = r.below(i + 1); prog.swap(i, j); }
    prog
}

fn gen_c(r: &mut Rng, lo: isize, hi: isize) -> C {
    let op = |r: &mut Rng| if r.below(5) == 0 { A::K(lo + r.below((hi - lo + 1) as usize) as isize) } else { A::V(r.below(NV)) };
    {
        let c = match r.below(10) {
            0 | 1 => C::Plus(op(r), op(r), op(r)), 2 => C::Minus(op(r), op(r), op(r)), 3 | 4 => C::Times(op(r), op(r), op(r)),
            5 => C::Lte(A::V(r.below(NV)), op(r)), 6 => C::Lt(A::V(r.below(NV)), op(r)), 7 => C::Ne(A::V(r.below(NV)), op(r)),
            8 => {
                // all-different over the variables, now and then with integer literals mixed in (in any order)
                let mut items: Vec<A> = (0..NV).map(A::V).collect();
                if r.below(2) == 0 { for _ in 0..1 + r.below(2) { let k = A::K(lo + r.below((hi - lo + 1) as usize) as isize); let pos = r.below(items.len() + 1); items.insert(pos, k); } }
                C::Distinct(items)
            }
            _ => if r.below(3) == 0 { C::EqL(vec![A::V(r.below(NV)), A::V(r.below(NV))], vec![op(r), op(r)]) } else { C::Eq(A::V(r.below(NV)), op(r)) },
        };
        c
    }
}

pub fn search(tier: &str, seed: u64, only: Option<&str>) {
    let n = if tier == "thorough" { 40_000 } else { 4_000 };
    let mut rep = Report::new("clpfd", &format!("{} generated FD programs: 3 variables, interval/sparse domains over -3..3 or 0..5, 1-3 constraints of every kind with aliasing and constants, random posting order (seed {}) + fixed shapes", n, seed));
    let dom3 = |lo: isize, hi: isize| vec![C::DomR(0, lo, hi), C::DomR(1, lo, hi), C::DomR(2, lo, hi)];
    let mut fixed: Vec<Vec<C>> = vec![];
    for (lo, hi) in [(0, 4), (1, 3), (-2, 2)] {
        for c in [C::Plus(A::V(0), A::V(1), A::V(2)), C::Minus(A::V(0), A::V(1), A::V(2)), C::Times(A::V(0), A::V(1), A::V(2)), C::Plus(A::V(0), A::V(0), A::V(0)), C::Plus(A::V(0), A::V(0), A::V(1)),
                  C::Times(A::V(0), A::V(0), A::V(1)), C::Times(A::V(0), A::V(1), A::K(-2)), C::Lte(A::V(0), A::V(1)), C::Lt(A::V(0), A::V(0)), C::Ne(A::V(0), A::V(1)), C::Distinct(vec![A::V(0), A::V(1), A::V(2)])] {
            let mut p = dom3(lo, hi); p.push(c.clone()); fixed.push(p.clone());
            let mut p2 = vec![c.clone()]; p2.extend(dom3(lo, hi)); fixed.push(p2);
        }
    }
    for items in [vec![A::V(0), A::K(2), A::V(1), A::K(0)], vec![A::K(1), A::V(0), A::K(-1), A::V(1), A::V(2)], vec![A::V(0), A::K(1), A::K(1)], vec![A::K(3), A::V(2), A::K(0), A::V(0)]] {
        let mut p = dom3(-1, 3); p.push(C::Distinct(items.clone())); fixed.push(p);
        let mut p = vec![C::Distinct(items.clone())]; p.extend(dom3(-1, 3)); fixed.push(p);
    }
    // C10: a disjunction whose branches narrow the same domain / extend the same all-different constraint differently
    for (a, b) in [(vec![C::DomR(0, 0, 1)], vec![C::DomR(0, 2, 3)]), (vec![C::Eq(A::V(0), A::K(1))], vec![C::Eq(A::V(0), A::K(2))]), (vec![C::Eq(A::V(0), A::K(1)), C::Eq(A::V(1), A::K(2))], vec![C::Eq(A::V(1), A::K(1))]),
                   (vec![C::Lt(A::V(0), A::V(1))], vec![C::Lt(A::V(1), A::V(0))]), (vec![C::Plus(A::V(0), A::V(1), A::K(3))], vec![C::Times(A::V(0), A::V(1), A::K(2))])] {
        for extra in [C::Distinct(vec![A::V(0), A::V(1), A::V(2)]), C::Plus(A::V(0), A::V(1), A::V(2)), C::Lte(A::V(0), A::V(2)), C::Ne(A::V(1), A::V(2))] {
            let mut p = dom3(0, 3); p.push(extra.clone()); p.push(C::Or(a.clone(), b.clone())); fixed.push(p);
            let mut p = dom3(0, 3); p.push(C::Or(a.clone(), b.clone())); p.push(extra.clone()); fixed.push(p);
        }
    }
    // a constraint posted on a variable that `==` has aliased to another one (the operand as posted is not the
    // representative that carries the domain), observed both fully and with the aliased pair hidden
    for (a, b) in [(1usize, 2usize), (2, 1), (0, 1), (1, 0)] {
        for k in [C::Plus(A::V(a), A::V(a), A::K(3)), C::Plus(A::V(a), A::V(a), A::K(1)), C::Times(A::V(a), A::V(a), A::K(2)), C::Times(A::V(a), A::V(a), A::K(3)), C::Plus(A::V(a), A::V(b), A::K(3)), C::Lt(A::V(a), A::V(b))] {
            let mut p = dom3(0, 3); p.push(C::Eq(A::V(a), A::V(b))); p.push(k.clone()); fixed.push(p);
            let mut p = dom3(0, 3); p.push(k.clone()); p.push(C::Eq(A::V(a), A::V(b))); fixed.push(p);
            let mut p = vec![C::DomR(0, 0, 3), C::DomR(b, 0, 3), C::Eq(A::V(a), A::V(b)), k.clone(), C::DomR(3 - a - b, 0, 3)]; if a + b == 3 { p.pop(); } fixed.push(p);
        }
    }
    // one unification binding two or three FD variables at once (in and out of their domains)
    let mut multi: Vec<Vec<C>> = vec![];
    for (l, rr) in [(vec![A::V(0), A::V(1)], vec![A::K(7), A::K(1)]), (vec![A::V(0), A::V(1)], vec![A::K(1), A::K(7)]), (vec![A::V(0), A::V(1), A::V(2)], vec![A::K(1), A::K(2), A::K(9)]),
                    (vec![A::V(0), A::V(1)], vec![A::K(1), A::K(2)]), (vec![A::V(0), A::V(1)], vec![A::V(2), A::K(8)]), (vec![A::V(1), A::V(2)], vec![A::V(0), A::V(0)])] {
        let mut p = dom3(0, 3); p.push(C::EqL(l.clone(), rr.clone())); multi.push(p);
        let mut p = vec![C::EqL(l.clone(), rr.clone())]; p.extend(dom3(0, 3)); multi.push(p);
    }
    // C09: the same programs run up to 12 times each (which binding of one unification is processed first is hash order)
    if only.is_none() {
        for prog in &multi {
            let first = run_real(prog, 0);
            rep.case("determinism", format!("probe {}", show(prog)));
            for _ in 0..12 {
                let again = run_real(prog, 0);
                if again != first {
                    let (mut a, mut b) = (first.clone(), again.clone()); a.sort(); b.sort();
                    rep.fail("determinism", show(prog), format!("{:?}", first), format!("{:?}", again), if a == b { "order" } else { "answers" });
                    break;
                }
            }
        }
    }
    fixed.extend(multi);
    // C09 probes: programs on which the answer ORDER is known to depend on hash iteration order (known finding); each
    // is run up to 40 times so that the dependence shows reliably
    if only.is_none() {
        for txt in ["x1in{0 1 2 4 5};times(x1,x2,x1);lte(x0,x2);x0in4..5;x2in{2 1 5 5 3 4}"] {
            let prog = parse_prog(txt);
            let first = run_real(&prog, 0);
            rep.case("determinism", format!("probe {}", txt));
            for _ in 0..40 {
                let again = run_real(&prog, 0);
                if again != first {
                    let (mut a, mut b) = (first.clone(), again.clone()); a.sort(); b.sort();
                    rep.fail("determinism", txt.to_string(), format!("{:?}", first), format!("{:?}", again), if a == b { "order" } else { "answers" });
                    break;
                }
            }
        }
    }
    for p in &fixed { if only.map_or(true, |o| show(p).contains(o)) { check(&mut rep, p); } }
    let mut r = Rng(0x9E3779B97F4A7C15 ^ (seed.wrapping_mul(0x2545F4914F6CDD1D)) | 1);
    for i in 0..n { let p = gen(&mut r, i % 2 == 0); check(&mut rep, &p); }
    rep.print();
}

fn parse_c(c: &str) -> C {
    let op = |s: &str| -> A { if let Some(r) = s.strip_prefix('x') { A::V(r.parse().unwrap()) } else { A::K(s.parse().unwrap()) } };
    if let Some(inner) = c.strip_prefix("or(") { let inner = &inner[..inner.len() - 1]; let halves: Vec<&str> = inner.split('/').collect(); return C::Or(halves[0].split('&').map(parse_c).collect(), halves[1].split('&').map(parse_c).collect()); }
    if let Some(p) = c.find("in{") { let v: usize = c[1..p].parse().unwrap(); let d: Vec<isize> = c[p + 3..c.len() - 1].split(' ').filter(|s| !s.is_empty()).map(|s| s.parse().unwrap()).collect(); return C::Dom(v, d); }
    if !c.contains('(') { let p = c.find("in").unwrap(); let v: usize = c[1..p].parse().unwrap(); let ab: Vec<&str> = c[p + 2..].split("..").collect(); return C::DomR(v, ab[0].parse().unwrap(), ab[1].parse().unwrap()); }
    let p = c.find('(').unwrap();
    if &c[..p] == "eql" { let halves: Vec<&str> = c[p + 1..c.len() - 1].split('|').collect(); return C::EqL(halves[0].split(',').map(op).collect(), halves[1].split(',').map(op).collect()); }
    let args: Vec<A> = c[p + 1..c.len() - 1].split(',').map(op).collect();
    match &c[..p] { "plus" => C::Plus(args[0], args[1], args[2]), "minus" => C::Minus(args[0], args[1], args[2]), "times" => C::Times(args[0], args[1], args[2]),
        "lte" => C::Lte(args[0], args[1]), "lt" => C::Lt(args[0], args[1]), "ne" => C::Ne(args[0], args[1]), "distinct" => C::Distinct(args), _ => C::Eq(args[0], args[1]) }
}
fn parse_prog(body: &str) -> Vec<C> { body.split(';').map(parse_c).collect() }

pub fn replay(input: &str) {
    // input: "<check> <program text>" in the format printed by show()
    let body = input.splitn(2, ' ').nth(1).unwrap_or(input);
    let body = body.trim_end_matches(" [compound-query]").trim_end_matches(" [nested-compound-query]").trim_end_matches(" [hidden-variables]").trim_end_matches(" [list-in-compound-query]").trim_end_matches(" [compound-in-compound-query]");
    let prog = parse_prog(body);
    let mut rep = Report::new("clpfd", "replay");
    if input.starts_with("determinism ") {
        // a nondeterministic order shows in about half of the pairs of runs: compare up to 40 runs with the first
        let first = run_real(&prog, 0);
        rep.case("determinism", body.to_string());
        for _ in 0..40 {
            let again = run_real(&prog, 0);
            if again != first {
                let (mut a, mut b) = (first.clone(), again.clone()); a.sort(); b.sort();
                rep.fail("determinism", body.to_string(), format!("{:?}", first), format!("{:?}", again), if a == b { "order" } else { "answers" });
                break;
            }
        }
    }
    check(&mut rep, &prog);
    rep.print();
}
