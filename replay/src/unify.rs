//! Bounded stand-in for the parts of C01 that the `unify` unit does not prove, and cross-check of what it proves:
//! State::unify on pairs of terms (variables, numbers, proper and improper lists, pairs as compound terms, Option
//! compounds) over 3 variables, from the empty substitution and after one earlier unification, against a reference
//! Robinson unifier on an independent term type:
//!   * succeeds exactly when the reference finds a unifier (completeness is NOT proved, only checked here);
//!   * on success both sides walk* to the identical term (soundness; proved for lists, checked here for compounds);
//!   * the answer is a most general unifier: equal to the reference mgu up to a bijective renaming of variables;
//!   * no binding makes a variable occur in its own walk* image (occurs check, through lists and compounds).
use crate::util::*;
use proto_vulcan::engine::DefaultEngine;
use proto_vulcan::lterm::{LTerm, LTermInner};
use proto_vulcan::state::State;
use proto_vulcan::user::DefaultUser;
use std::collections::BTreeMap;

type U = DefaultUser;
type E = DefaultEngine<U>;
type T = LTerm<U, E>;
const NV: usize = 3;

// two distinct #[compound] types that share their unqualified name and arity: they must never unify
mod ca { use proto_vulcan::prelude::*; #[compound] pub struct Point(pub LTerm, pub LTerm); }
mod cb { use proto_vulcan::prelude::*; #[compound] pub struct Point(pub LTerm, pub LTerm); }
fn mk_pa(a: T, b: T) -> T { Into::<T>::into(ca::Point_compound::_InnerPoint::<U, E>(a, b)) }
fn mk_pb(a: T, b: T) -> T { Into::<T>::into(cb::Point_compound::_InnerPoint::<U, E>(a, b)) }
// a compound with an Option field: Some(..) and None have different numbers of children
mod co { use proto_vulcan::prelude::*; #[compound] pub struct Pr(pub LTerm, pub LTerm); #[compound] pub struct Opt(pub Option<Pr>, pub LTerm); }
/// the term a goal `q == <term>` binds q to (built through the macro syntax, the only way to write a `Some(..)` field)
fn term_of(q: T, g: proto_vulcan::goal::Goal<U, E>) -> T {
    let mut solver: proto_vulcan::solver::Solver<U, E> = proto_vulcan::solver::Solver::new((), false);
    let mut stream = solver.start(&g, State::new(DefaultUser::new()));
    let st = solver.next(&mut stream).expect("term construction");
    st.smap_ref().walk(&q).clone()
}
fn mk_os(a: T, b: T, c: T) -> T { use proto_vulcan::prelude::*; use co::*; let q: T = LTerm::var("q"); let qq = q.clone(); term_of(qq, proto_vulcan!(q == Opt(Some(Pr(a, b)), c))) }
fn mk_on(c: T) -> T { Into::<T>::into(co::Opt_compound::_InnerOpt::<U, E>(None, c)) }

#[derive(Clone, Debug, PartialEq, Eq, PartialOrd, Ord)]
pub enum R { V(usize), N(isize), Nil, Cons(Box<R>, Box<R>), Pair(Box<R>, Box<R>), PA(Box<R>, Box<R>), PB(Box<R>, Box<R>), /** Opt(Some(Pr(a, b)), c) */ OS(Box<R>, Box<R>, Box<R>), /** Opt(None, c) */ ON(Box<R>) }

impl R {
    fn show(&self) -> String {
        match self {
            R::V(i) => format!("x{}", i), R::N(k) => k.to_string(), R::Nil => "[]".into(),
            R::Cons(h, t) => format!("({} . {})", h.show(), t.show()),
            R::Pair(a, b) => format!("<{}, {}>", a.show(), b.show()),
            R::PA(a, b) => format!("ca::Point({}, {})", a.show(), b.show()),
            R::PB(a, b) => format!("cb::Point({}, {})", a.show(), b.show()),
            R::OS(a, b, c) => format!("Opt(Some(Pr({}, {})), {})", a.show(), b.show(), c.show()),
            R::ON(c) => format!("Opt(None, {})", c.show()),
        }
    }
    fn build(&self, vars: &[T]) -> T {
        match self {
            R::V(i) => vars[*i].clone(), R::N(k) => LTerm::from(*k), R::Nil => LTerm::empty_list(),
            R::Cons(h, t) => LTerm::cons(h.build(vars), t.build(vars)),
            R::Pair(a, b) => (a.build(vars), b.build(vars)).into(),
            R::PA(a, b) => mk_pa(a.build(vars), b.build(vars)),
            R::PB(a, b) => mk_pb(a.build(vars), b.build(vars)),
            R::OS(a, b, c) => mk_os(a.build(vars), b.build(vars), c.build(vars)),
            R::ON(c) => mk_on(c.build(vars)),
        }
    }
}

// ---- reference unifier (idempotent substitution as a map; Robinson with occurs check)
type Sub = BTreeMap<usize, R>;
fn walk(s: &Sub, t: &R) -> R { let mut t = t.clone(); loop { match &t { R::V(i) => match s.get(i) { Some(n) => t = n.clone(), None => return t }, _ => return t } } }
fn walk_star(s: &Sub, t: &R) -> R {
    match walk(s, t) {
        R::Cons(h, t2) => R::Cons(Box::new(walk_star(s, &h)), Box::new(walk_star(s, &t2))),
        R::Pair(a, b) => R::Pair(Box::new(walk_star(s, &a)), Box::new(walk_star(s, &b))),
        R::PA(a, b) => R::PA(Box::new(walk_star(s, &a)), Box::new(walk_star(s, &b))),
        R::PB(a, b) => R::PB(Box::new(walk_star(s, &a)), Box::new(walk_star(s, &b))),
        R::OS(a, b, c) => R::OS(Box::new(walk_star(s, &a)), Box::new(walk_star(s, &b)), Box::new(walk_star(s, &c))),
        R::ON(c) => R::ON(Box::new(walk_star(s, &c))),
        w => w,
    }
}
fn occurs(s: &Sub, x: usize, t: &R) -> bool {
    match walk(s, t) { R::V(j) => j == x, R::Cons(a, b) | R::Pair(a, b) | R::PA(a, b) | R::PB(a, b) => occurs(s, x, &a) || occurs(s, x, &b), R::OS(a, b, c) => occurs(s, x, &a) || occurs(s, x, &b) || occurs(s, x, &c), R::ON(c) => occurs(s, x, &c), _ => false }
}
fn unify(s: Sub, a: &R, b: &R) -> Option<Sub> {
    let (a, b) = (walk(&s, a), walk(&s, b));
    match (&a, &b) {
        (R::V(i), R::V(j)) if i == j => Some(s),
        (R::V(i), _) => if occurs(&s, *i, &b) { None } else { let mut s = s; s.insert(*i, b.clone()); Some(s) },
        (_, R::V(j)) => if occurs(&s, *j, &a) { None } else { let mut s = s; s.insert(*j, a.clone()); Some(s) },
        (R::N(x), R::N(y)) => if x == y { Some(s) } else { None },
        (R::Nil, R::Nil) => Some(s),
        (R::Cons(h1, t1), R::Cons(h2, t2)) | (R::Pair(h1, t1), R::Pair(h2, t2)) | (R::PA(h1, t1), R::PA(h2, t2)) | (R::PB(h1, t1), R::PB(h2, t2)) => unify(s, h1, h2).and_then(|s| unify(s, t1, t2)),
        (R::OS(a1, b1, c1), R::OS(a2, b2, c2)) => unify(s, a1, a2).and_then(|s| unify(s, b1, b2)).and_then(|s| unify(s, c1, c2)),
        (R::ON(c1), R::ON(c2)) => unify(s, c1, c2),
        _ => None,
    }
}

// ---- reading the real result back into R
fn read(t: &T, vars: &[T]) -> R {
    if let Some(i) = vars.iter().position(|v| v == t) { return R::V(i); }
    if let Some(n) = t.get_number() { return R::N(n); }
    if t.is_empty() { return R::Nil; }
    if t.is_non_empty_list() { return R::Cons(Box::new(read(t.head().unwrap(), vars)), Box::new(read(t.tail().unwrap(), vars))); }
    // compounds: through the Debug text would be fragile; use the structural API of CompoundObject
    if let LTermInner::Compound(c) = t.as_ref() {
        fn flat<'a>(o: &'a dyn proto_vulcan::compound::CompoundObject<U, E>, out: &mut Vec<&'a T>) { for ch in o.children() { match ch.as_term() { Some(t) => out.push(t), None => flat(ch, out) } } }
        let mut ts: Vec<&T> = vec![]; flat(c.as_ref(), &mut ts);
        let kids: Vec<R> = ts.iter().map(|k| read(k, vars)).collect();
        if kids.len() == 3 { return R::OS(Box::new(kids[0].clone()), Box::new(kids[1].clone()), Box::new(kids[2].clone())); }
        if kids.len() == 1 { return R::ON(Box::new(kids[0].clone())); }
        let (a, b) = (Box::new(kids[0].clone()), Box::new(kids[1].clone()));
        // which compound type: re-build each candidate around the same children and compare with the term itself
        let (ta, tb) = (a.build(vars), b.build(vars));
        if *t == mk_pa(ta.clone(), tb.clone()) { return R::PA(a, b); }
        if *t == mk_pb(ta.clone(), tb.clone()) { return R::PB(a, b); }
        return R::Pair(a, b);
    }
    panic!("unreadable term {:?}", t)
}

/// is there a bijective renaming of variables turning every a[i] into b[i]?
fn renaming(a: &[R], b: &[R]) -> bool {
    fn go(a: &R, b: &R, f: &mut BTreeMap<usize, usize>, g: &mut BTreeMap<usize, usize>) -> bool {
        match (a, b) {
            (R::V(i), R::V(j)) => { if *f.entry(*i).or_insert(*j) != *j { return false; } *g.entry(*j).or_insert(*i) == *i }
            (R::N(x), R::N(y)) => x == y, (R::Nil, R::Nil) => true,
            (R::Cons(a1, a2), R::Cons(b1, b2)) | (R::Pair(a1, a2), R::Pair(b1, b2)) | (R::PA(a1, a2), R::PA(b1, b2)) | (R::PB(a1, a2), R::PB(b1, b2)) => go(a1, b1, f, g) && go(a2, b2, f, g),
            (R::OS(a1, a2, a3), R::OS(b1, b2, b3)) => go(a1, b1, f, g) && go(a2, b2, f, g) && go(a3, b3, f, g),
            (R::ON(a1), R::ON(b1)) => go(a1, b1, f, g),
            _ => false,
        }
    }
    let (mut f, mut g) = (BTreeMap::new(), BTreeMap::new());
    a.iter().zip(b.iter()).all(|(x, y)| go(x, y, &mut f, &mut g))
}

fn universe(depth: usize) -> Vec<R> {
    let mut lv: Vec<R> = (0..NV).map(R::V).collect();
    lv.extend(vec![R::N(1), R::N(2), R::Nil]);
    let mut all = lv.clone();
    let mut prev = lv.clone();
    for _ in 0..depth {
        let mut next = vec![];
        let small: Vec<R> = prev.iter().cloned().take(9).collect();
        for a in &small { for b in &small {
            next.push(R::Cons(Box::new(a.clone()), Box::new(b.clone())));
            next.push(R::Pair(Box::new(a.clone()), Box::new(b.clone())));
            if small.iter().position(|x| x == a).unwrap() < 5 && small.iter().position(|x| x == b).unwrap() < 5 {
                next.push(R::PA(Box::new(a.clone()), Box::new(b.clone())));
                next.push(R::PB(Box::new(a.clone()), Box::new(b.clone())));
            }
        } }
        all.extend(next.iter().cloned());
        prev = next;
    }
    all.sort(); all.dedup();
    all
}

/// run one case: optional earlier unification (p1 == p2), then (a == b)
fn case(rep: &mut Report, pre: Option<(&R, &R)>, a: &R, b: &R) {
    let inp = match pre { Some((p, q)) => format!("{} == {} ; {} == {}", p.show(), q.show(), a.show(), b.show()), None => format!("{} == {}", a.show(), b.show()) };
    rep.case("State::unify", inp.clone());
    let (pre_c, a_c, b_c) = (pre.map(|(p, q)| (p.clone(), q.clone())), a.clone(), b.clone());
    let out = std::panic::catch_unwind(move || {
        let vars: Vec<T> = vec![LTerm::var("x0"), LTerm::var("x1"), LTerm::var("x2")];
        let mut st: State<U, E> = State::new(DefaultUser::new());
        let mut rs: Option<Sub> = Some(Sub::new());
        if let Some((p, q)) = &pre_c {
            rs = unify(Sub::new(), p, q);
            match st.unify(&p.build(&vars), &q.build(&vars)) { Ok(s) => st = s, Err(_) => return (rs.is_none(), "pre".to_string(), String::new(), String::new()) }
            if rs.is_none() { return (false, "complete/pre".into(), "no unifier".into(), "unified".into()); }
        }
        let rs2 = unify(rs.clone().unwrap(), &a_c, &b_c);
        match st.unify(&a_c.build(&vars), &b_c.build(&vars)) {
            Err(_) => (rs2.is_none(), "complete".into(), format!("{:?}", rs2), "fails".into()),
            Ok(s) => {
                let Some(rs2) = rs2 else { return (false, "refuses".into(), "no (finite) unifier".into(), "unified".into()); };
                let w = |t: &R| read(&s.smap_ref().walk_star(&t.build(&vars)), &vars);
                let (wa, wb) = (w(&a_c), w(&b_c));
                if wa != wb { return (false, "sound".into(), "both sides resolve to one term".into(), format!("{} vs {}", wa.show(), wb.show())); }
                let real: Vec<R> = (0..NV).map(|i| w(&R::V(i))).collect();
                let refr: Vec<R> = (0..NV).map(|i| walk_star(&rs2, &R::V(i))).collect();
                if !renaming(&real, &refr) { return (false, "mgu".into(), format!("{:?}", refr.iter().map(|r| r.show()).collect::<Vec<_>>()), format!("{:?}", real.iter().map(|r| r.show()).collect::<Vec<_>>())); }
                (true, String::new(), String::new(), String::new())
            }
        }
    });
    match out {
        Ok((true, _, _, _)) => {}
        Ok((false, class, exp, got)) => rep.fail("State::unify", inp, exp, got, Box::leak(class.into_boxed_str())),
        Err(_) => rep.fail("State::unify", inp, "no panic / terminates".into(), "panic (stack overflow on a cyclic term shows up here)".into(), "panic"),
    }
}

pub fn search(tier: &str, _only: Option<&str>) {
    let depth = 1;
    let uni = universe(depth);
    let mut rep = Report::new("unify", &format!("all pairs of {} terms (variables x0..x2, 1, 2, [], and one level of cons / pair / two #[compound] structs over them) from the empty substitution; {} after one earlier unification", uni.len(), if tier == "thorough" { "all pairs x 40 earlier unifications" } else { "every third pair x 12 earlier unifications" }));
    for a in &uni { for b in &uni { case(&mut rep, None, a, b); } }
    // deeper hand-picked occurs-check shapes
    let v = |i| R::V(i);
    let cons = |a: R, b: R| R::Cons(Box::new(a), Box::new(b));
    let pair = |a: R, b: R| R::Pair(Box::new(a), Box::new(b));
    let pa = |a: R, b: R| R::PA(Box::new(a), Box::new(b));
    let pb = |a: R, b: R| R::PB(Box::new(a), Box::new(b));
    let deep = vec![
        (None, v(0), cons(R::N(1), cons(v(0), R::Nil))),
        (None, v(0), pair(R::N(1), pair(v(0), R::N(2)))),
        (Some((v(1), cons(v(0), R::Nil))), v(0), cons(v(1), R::Nil)),
        (Some((v(1), pair(v(0), R::N(1)))), v(0), pair(R::N(2), v(1))),
        (Some((v(1), v(0))), v(0), cons(v(1), R::Nil)),
        (Some((v(0), v(1))), v(1), cons(R::N(1), v(0))),
        (Some((cons(v(0), v(1)), cons(v(1), v(2)))), v(2), cons(v(0), R::Nil)),
        // compound structs: a variable bound only inside a field's value; a compound nested through a variable field;
        // same-named compound types from different modules
        (Some((v(2), R::N(2))), pa(v(0), cons(R::N(1), cons(v(2), R::Nil))), pa(R::N(1), cons(R::N(1), cons(R::N(2), R::Nil)))),
        (Some((v(1), pa(v(2), R::N(2)))), pa(R::N(1), v(1)), pa(R::N(1), pa(R::N(1), R::N(2)))),
        (None, pa(v(0), R::N(2)), pb(R::N(1), v(1))),
        (Some((v(0), pa(R::N(1), R::N(2)))), v(0), pb(R::N(1), R::N(2))),
        (None, v(0), pa(R::N(1), pa(v(0), R::N(2)))),
        // an Option field: Some(..) against None (different numbers of children), in both orders and through a variable
        (None, R::OS(Box::new(v(0)), Box::new(R::N(2)), Box::new(R::N(3))), R::ON(Box::new(R::N(3)))),
        (None, R::ON(Box::new(R::N(3))), R::OS(Box::new(v(0)), Box::new(R::N(2)), Box::new(R::N(3)))),
        (None, R::ON(Box::new(v(0))), R::ON(Box::new(R::N(3)))),
        (None, R::OS(Box::new(v(0)), Box::new(R::N(2)), Box::new(v(1))), R::OS(Box::new(R::N(1)), Box::new(R::N(2)), Box::new(R::N(3)))),
        (None, R::OS(Box::new(R::N(1)), Box::new(R::N(2)), Box::new(R::N(3))), R::OS(Box::new(R::N(1)), Box::new(R::N(1)), Box::new(R::N(3)))),
        (Some((v(2), R::ON(Box::new(R::N(3))))), v(2), R::OS(Box::new(R::N(1)), Box::new(R::N(2)), Box::new(R::N(3)))),
        (Some((v(2), R::ON(Box::new(v(1))))), v(2), R::ON(Box::new(R::N(1)))),
        (None, v(0), R::OS(Box::new(v(0)), Box::new(R::N(1)), Box::new(R::N(2)))),
        (None, R::ON(Box::new(R::N(3))), pa(R::N(3), R::N(3))),
    ];
    for (pre, a, b) in &deep { case(&mut rep, pre.as_ref().map(|(p, q)| (p, q)), a, b); }
    let pres: Vec<(R, R)> = {
        let mut p = vec![];
        for a in uni.iter().step_by(7) { for b in uni.iter().step_by(11) { if unify(Sub::new(), a, b).map(|s| !s.is_empty()).unwrap_or(false) { p.push((a.clone(), b.clone())); } } }
        p.truncate(if tier == "thorough" { 40 } else { 12 });
        p
    };
    let stride = if tier == "thorough" { 1 } else { 3 };
    let mut k = 0usize;
    for (p, q) in &pres { for a in &uni { for b in &uni { k += 1; if k % stride == 0 { case(&mut rep, Some((p, q)), a, b); } } } }
    rep.print();
}

pub fn replay(input: &str) {
    // "State::unify <p == q ; a == b>" is descriptive only: the search is deterministic and cheap, so replay re-runs it
    let _ = input;
    search("quick", None);
}
