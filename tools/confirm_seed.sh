#!/bin/sh
# confirm_seed.sh <worktree> <pid> <i>: (1) demo passes on the clean tree, (2) with the patch the demo
# fails, (3) with the patch the whole existing suite still passes.  Prints one line per fact.
wt=$1; pid=$2; i=$3
cd "$wt" || exit 2
git checkout -q -- . ; rm -rf tests
mkdir -p tests; cp seed_${pid}_${i}_demo.rs tests/seed_${pid}_${i}.rs
if cargo test --offline --test seed_${pid}_${i} >/tmp/cs_$$.log 2>&1; then echo "clean: demo PASS"; else echo "clean: demo FAIL (unexpected)"; tail -5 /tmp/cs_$$.log; fi
git apply seed_${pid}_${i}.patch || { echo "patch does not apply"; exit 1; }
if cargo test --offline --test seed_${pid}_${i} >/tmp/cs_$$.log 2>&1; then echo "patched: demo PASS (unexpected)"; else echo "patched: demo FAIL"; fi
rm -rf tests
cargo test --workspace --offline --no-fail-fast 2>&1 | grep -E "^test result" | tr '\n' ' '; echo
git checkout -q -- . ; rm -f /tmp/cs_$$.log
