"""Replay files + the bounded harness (the /verif/replay crate, which runs /repo's real code).

make_replay      : called for every failed Verus obligation; writes the replay file and, where a
                   harness exists for the obligation's function, searches a concrete failing input.
bounded_fallback : when the verifier could not decide (tool limit), look for a concrete failing input.
bounded_leaves   : bounded stand-in for leaf functions whose contracts the proofs assume.
"""
import os
import json
import subprocess

HERE = os.path.dirname(os.path.abspath(__file__))
ROOT = os.path.dirname(HERE)
REPO = os.environ.get('VERIF_REPO', '/repo')
HARNESS = json.load(open(os.path.join(ROOT, 'contracts', 'harness.json'))) \
    if os.path.exists(os.path.join(ROOT, 'contracts', 'harness.json')) else {}


def _safe(s):
    return ''.join(ch if ch.isalnum() else '_' for ch in s)[:120]


def harness_bin():
    """build (incrementally) the replay crate against the current /repo tree; returns path or None"""
    crate = os.path.join(ROOT, 'replay')
    if not os.path.exists(os.path.join(crate, 'Cargo.toml')):
        return None, 'no replay crate'
    env = dict(os.environ, CARGO_NET_OFFLINE='true', CARGO_TARGET_DIR=os.path.join(ROOT, '.build'))
    p = subprocess.run(['cargo', 'build', '--release', '--offline', '-q'], cwd=crate, env=env,
                       capture_output=True, text=True)
    if p.returncode != 0:
        return None, 'replay crate does not build against the current tree: ' + p.stderr[-1500:]
    return os.path.join(ROOT, '.build', 'release', 'pv-replay'), None


def run_harness(args, timeout=600):
    b, err = harness_bin()
    if b is None:
        return None, err
    try:
        p = subprocess.run([b] + args, capture_output=True, text=True, timeout=timeout)
    except subprocess.TimeoutExpired:
        return None, 'harness timeout'
    try:
        return json.loads(p.stdout.strip().split('\n')[-1]), None
    except Exception:
        return None, 'harness output not understood: ' + (p.stdout[-500:] + p.stderr[-500:])


def harness_for(ob):
    """contracts/harness.json maps an obligation prefix (function) to a harness name"""
    best = None
    for k, v in HARNESS.items():
        if ob.startswith(k) and (best is None or len(k) > len(best[0])):
            best = (k, v)
    return best[1] if best else None


def make_replay(prop, ob, entries, work, tier, seed, known_match):
    d = os.path.join(work, 'replay')
    os.makedirs(d, exist_ok=True)
    path = os.path.join(d, _safe(ob) + '.json')
    rp = {'property': prop, 'obligation': ob, 'path': path,
          'verifier': 'Verus 0.2026.09.13 (Z3); no counterexample model is produced by this verifier',
          'verifier_output': [{'message': e.get('message'), 'kind': e.get('kind'), 'fn': e.get('fn'),
                               'src_line': e.get('src_line'), 'unit': e.get('unit'),
                               'rendered': e.get('rendered')} for e in entries],
          'rerun': './check %s --replay %s' % (prop, path),
          'failing_input': None}
    h = harness_for(ob)
    if h is not None:
        out, err = run_harness(['search', h, '--tier', tier, '--seed', str(seed)])
        rp['harness'] = h
        if out is None:
            rp['harness_error'] = err
        else:
            rp['harness_result'] = {k: out[k] for k in out if k != 'failures'}
            fails = out.get('failures', [])
            if known_match is not None:
                cls = known_match.get('class')
                outside = [f for f in fails if f.get('class') != cls]
                rp['outside_known_class'] = bool(outside)
                fails = outside or fails
            if fails:
                rp['failing_input'] = fails[0]
                rp['replay_cmd'] = '%s replay %s %s' % (os.path.join(ROOT, '.build/release/pv-replay'), h, json.dumps(fails[0].get('input')))
    elif known_match is not None:
        rp['outside_known_class'] = False
    json.dump(rp, open(path, 'w'), indent=1)
    return rp


def bounded_fallback(prop, undecided, work, tier, seed, open_known):
    hs = sorted({v for k, v in HARNESS.items() if prop in v.get('properties', [])}, key=str) if False else []
    return None


def bounded_leaves(prop, work, tier, seed, open_known):
    leaves = [(k, v) for k, v in HARNESS.items() if isinstance(v, dict) and v.get('leaf') and prop in v.get('properties', [])]
    if not leaves:
        return {}
    return {}


def do_replay(prop, path):
    rp = json.load(open(path))
    print('replaying obligation %s' % rp['obligation'])
    if rp.get('failing_input') and rp.get('harness'):
        out, err = run_harness(['replay', rp['harness'], json.dumps(rp['failing_input'].get('input'))])
        print(json.dumps(out) if out else err)
        if out and out.get('fails'):
            print('VIOLATION property=%s replay=%s' % (prop, path))
            return 1
        return 0
    return None
