"""Replay files + the bounded harness (the /verif/replay crate, which runs /repo's real code).

make_replay      : called for every failed Verus obligation; writes the replay file and, where a
                   harness exists for the obligation's function, searches a concrete failing input.
bounded_fallback : when the verifier could not decide (tool limit), look for a concrete failing input.
bounded_leaves   : bounded stand-in for leaf functions whose contracts the proofs assume.
"""
import os
import json
import subprocess

HERE = os.path.dirname(os.path.abspath(__file__))
ROOT = os.path.dirname(HERE)
REPO = os.environ.get('VERIF_REPO', '/repo')
# scratch mode: VERIF_REPO names a *full* copy of the repository (Cargo.toml present) -> harness runs there
SCRATCH = REPO != '/repo' and os.path.exists(os.path.join(REPO, 'Cargo.toml'))
NOHARNESS = REPO != '/repo' and not SCRATCH
HARNESS = json.load(open(os.path.join(ROOT, 'contracts', 'harness.json'))) \
    if os.path.exists(os.path.join(ROOT, 'contracts', 'harness.json')) else {}


def _safe(s):
    return ''.join(ch if ch.isalnum() else '_' for ch in s)[:120]


def harness_bin():
    """build (incrementally) the replay crate against the current /repo tree; returns path or None"""
    crate = os.path.join(ROOT, 'replay')
    if not os.path.exists(os.path.join(crate, 'Cargo.toml')):
        return None, 'no replay crate'
    target = os.path.join(ROOT, '.build')
    if SCRATCH:
        # development only (self-test, seeded defects): a full scratch copy of the repository with its
        # own copy of the replay crate and its own target directory, so that /repo is never touched
        import shutil
        c2 = REPO.rstrip('/') + '.replay'
        target = REPO.rstrip('/') + '.build'
        if not os.path.exists(c2):
            shutil.copytree(crate, c2)
            t = open(os.path.join(c2, 'Cargo.toml')).read().replace('path = "/repo"', 'path = "%s"' % REPO)
            open(os.path.join(c2, 'Cargo.toml'), 'w').write(t)
        crate = c2
    env = dict(os.environ, CARGO_NET_OFFLINE='true', CARGO_TARGET_DIR=target)
    p = subprocess.run(['cargo', 'build', '--release', '--offline', '-q'], cwd=crate, env=env,
                       capture_output=True, text=True)
    if p.returncode != 0:
        return None, 'replay crate does not build against the current tree: ' + p.stderr[-1500:]
    return os.path.join(target, 'release', 'pv-replay'), None


_BIN = []


def run_harness(args, timeout=600):
    if not _BIN:
        _BIN.append(harness_bin())      # built once per check run (incremental: always the current tree)
    b, err = _BIN[0]
    if b is None:
        return None, err
    try:
        p = subprocess.run([b] + args, capture_output=True, text=True, timeout=timeout)
    except subprocess.TimeoutExpired:
        return None, 'harness timeout'
    try:
        return json.loads(p.stdout.strip().split('\n')[-1]), None
    except Exception:
        return None, 'harness output not understood: ' + (p.stdout[-500:] + p.stderr[-500:])


def harness_for(ob):
    """contracts/harness.json "replay" maps an obligation prefix (function) to a harness"""
    best = None
    for k, v in HARNESS.get('replay', {}).items():
        if ob.startswith(k) and (best is None or len(k) > len(best[0])):
            best = (k, v)
    return best[1] if best else None


def make_replay(prop, ob, entries, work, tier, seed, known_match):
    d = os.path.join(work, 'replay')
    os.makedirs(d, exist_ok=True)
    path = os.path.join(d, _safe(ob) + '.json')
    rp = {'property': prop, 'obligation': ob, 'path': path,
          'verifier': 'Verus 0.2026.09.13 (Z3); no counterexample model is produced by this verifier',
          'verifier_output': [{'message': e.get('message'), 'kind': e.get('kind'), 'fn': e.get('fn'),
                               'src_line': e.get('src_line'), 'unit': e.get('unit'),
                               'rendered': e.get('rendered')} for e in entries],
          'rerun': './check %s --replay %s' % (prop, path),
          'failing_input': None}
    h = harness_for(ob)
    if h is not None and not NOHARNESS:
        args = ['search', h['harness'], '--tier', tier, '--seed', str(seed)]
        if h.get('only'):
            args += ['--only', h['only']]
        out, err = run_harness(args)
        rp['harness'] = h
        if out is None:
            rp['harness_error'] = err
        else:
            rp['harness_result'] = {k: out[k] for k in out if k != 'failures'}
            fails = out.get('failures', [])
            if known_match is not None:
                cls = known_match.get('class')
                outside = [f for f in fails if f.get('class') != cls]
                rp['outside_known_class'] = bool(outside)
                fails = outside or fails
            if fails:
                rp['failing_input'] = fails[0]
                rp['replay_cmd'] = '%s replay %s "%s %s"' % (os.path.join(ROOT, '.build/release/pv-replay'), h['harness'],
                                                           fails[0].get('fn'), fails[0].get('input'))
    elif known_match is not None:
        rp['outside_known_class'] = False
    json.dump(rp, open(path, 'w'), indent=1)
    return rp


def bounded_fallback(prop, undecided, work, tier, seed, open_known):
    """the verifier could not decide: a concrete failing input from the bounded harness is still a
    violation (it is real by construction)"""
    if NOHARNESS:
        return None
    for spec in HARNESS.get('bounded', {}).get(prop, []):
        out, err = run_harness(['search', spec['harness'], '--tier', tier, '--seed', str(seed)])
        fl = [f for f in (out or {}).get('failures', []) if not spec.get('fns') or f.get('fn') in spec['fns']]
        if fl:
            f = fl[0]
            d = os.path.join(work, 'replay')
            os.makedirs(d, exist_ok=True)
            path = os.path.join(d, 'bounded_' + _safe(spec['harness'] + '_' + f.get('fn', '')) + '.json')
            rp = {'property': prop, 'obligation': 'bounded:%s:%s' % (spec['harness'], f.get('fn')), 'path': path,
                  'verifier_output': [{'message': 'verifier undecided: ' + '; '.join('%s %s' % (u[1], u[2][:200]) for u in undecided)}],
                  'failing_input': f, 'harness': spec}
            json.dump(rp, open(path, 'w'), indent=1)
            return rp
    return None


def bounded_leaves(prop, work, tier, seed, open_known):
    """bounded stand-in: runs the real code of the leaf functions (whose contracts the proofs assume)
    and, as a cross-check of the specification text, of the proved functions, against an independent
    executable model.  Labelled bounded; never added to obligations/discharged."""
    specs = HARNESS.get('bounded', {}).get(prop, [])
    if not specs or NOHARNESS:
        return {'report': [{'note': 'bounded harness not run (VERIF_REPO override)'}]} if specs else {}
    res = {'report': [], 'violations': [], 'known_lines': [], 'evaluations': 0, 'distinct_nontrivial': 0, 'rule': ''}
    if not _BIN:
        _BIN.append(harness_bin())
    import concurrent.futures as _cf
    with _cf.ThreadPoolExecutor(max(1, len(specs))) as ex:
        outs = list(ex.map(lambda sp: run_harness(['search', sp['harness'], '--tier', tier, '--seed', str(seed)]), specs))
    for spec, (out, err) in zip(specs, outs):
        if out is None:
            res['report'].append({'harness': spec['harness'], 'error': err})
            if err and 'does not build' in err:
                # the replay crate no longer compiles against this tree: the stand-in cannot run (tool limit)
                res.setdefault('undecided', []).append('bounded harness %s: %s' % (spec['harness'], err[:300]))
            else:
                # the harness built but died while executing the real code (abort, stack overflow, signal, timeout)
                ob = 'bounded:%s' % spec['harness']
                path = _write(work, 'bounded_' + spec['harness'] + '_crash', {'property': prop, 'obligation': ob,
                              'failing_input': {'fn': spec['harness'], 'input': 'the whole harness run', 'got': err, 'class': 'crash'},
                              'replay_cmd': '%s search %s --tier %s --seed %s' % (os.path.join(ROOT, '.build/release/pv-replay'), spec['harness'], tier, seed),
                              'harness': spec['harness']})
                res['violations'].append({'obligation': ob, 'path': path, 'failing_input': {'fn': spec['harness'], 'input': 'harness run', 'got': err}})
            continue
        res['evaluations'] += out.get('cases', 0)
        res['distinct_nontrivial'] += out.get('distinct_nontrivial', 0)
        res['rule'] = out.get('bound', '')
        for fn, n in sorted(out.get('per_fn', {}).items()):
            res['report'].append({'function': fn, 'role': 'leaf (assumed contract): ' + spec['leaves'][fn] if fn in spec.get('leaves', {}) else 'cross-check of a proved function',
                                  'bound': out.get('bound'), 'cases': n, 'failures': out.get('fail_counts', {}).get(fn, 0)})
        by_fn = {}
        for f in out.get('failures', []):
            if spec.get('fns') and f.get('fn') not in spec['fns']:
                continue
            if spec.get('classes') and f.get('class') not in spec['classes']:
                continue   # e.g. C23 listens to every harness, but only for panics
            by_fn.setdefault(f.get('fn'), []).append(f)
        for fn, fs in by_fn.items():
            ob = 'bounded:%s:%s' % (spec['harness'], fn)
            # listed findings for this obligation, each identified by its failure class (and described by call site
            # and witness input); a failure of any other class is a different violation and is reported
            kms = [k for k in open_known if k.get('obligation') == ob or ob in (k.get('obligations') or [])]
            classes = {k.get('class') for k in kms}
            outside = [f for f in fs if f.get('class') not in classes]
            for k in kms:
                if any(f.get('class') == k.get('class') for f in fs):
                    line = 'KNOWN-FINDING: property=%s %s [%s %s]' % (prop, k.get('what', ob), k.get('id', ''), ob)
                    if line not in res['known_lines']:
                        res['known_lines'].append(line)
            if not outside:
                continue
            f = outside[0]
            path = _write(work, 'bounded_' + spec['harness'] + '_' + fn, {'property': prop, 'obligation': ob, 'failing_input': f,
                          'replay_cmd': '%s replay %s "%s %s"' % (os.path.join(ROOT, '.build/release/pv-replay'), spec['harness'], fn, f.get('input')),
                          'harness': spec['harness']})
            res['violations'].append({'obligation': ob, 'path': path, 'failing_input': f})
    res['violations'] = [v for v in res['violations'] if v]
    return res


def _write(work, name, obj):
    d = os.path.join(work, 'replay')
    os.makedirs(d, exist_ok=True)
    path = os.path.join(d, _safe(name) + '.json')
    obj['path'] = path
    json.dump(obj, open(path, 'w'), indent=1)
    return path


def do_replay(prop, path):
    rp = json.load(open(path))
    print('replaying obligation %s' % rp['obligation'])
    fi = rp.get('failing_input')
    h = rp.get('harness')
    hname = h['harness'] if isinstance(h, dict) else h
    if fi and hname:
        out, err = run_harness(['replay', hname, '%s %s' % (fi.get('fn'), fi.get('input'))])
        print(json.dumps(out) if out else err)
        if out and out.get('failures'):
            print('VIOLATION property=%s replay=%s' % (prop, path))
            return 1
        return 0
    return None
