#!/usr/bin/env python3
"""Regenerate MANIFEST.json from contracts/claims.json (one place to keep claims, levels, notes)."""
import json, os
ROOT = os.path.dirname(os.path.dirname(os.path.abspath(__file__)))
claims = json.load(open(os.path.join(ROOT, 'contracts', 'claims.json')))
ids = ['C%02d' % i for i in range(1, 25)]
checks = []
for pid in ids:
    c = claims['claimed'].get(pid)
    if not c:
        continue
    checks.append({
        'property_id': pid,
        'quick_cmd': './check %s --tier quick' % pid,
        'thorough_cmd': './check %s --tier thorough' % pid,
        'evidence_file': 'evidence/%s.json' % pid,
        'replay_cmd_template': './check %s --replay {path}' % pid,
        'engine': 'verus-contracts',
        'level_claimed': {'category': c.get('category', 'proof'), 'text': c['text'], 'design_ref': c['design_ref']},
        'level_note': c['note'],
        'technique': c['technique'],
    })
na = [{'property_id': pid, 'reason': claims['not_applicable'][pid]} for pid in ids if pid not in claims['claimed']]
missing = [pid for pid in ids if pid not in claims['claimed'] and pid not in claims['not_applicable']]
assert not missing, missing
m = {
    'version': 1,
    'setup_cmd': 'cd /verif && ./setup.sh',
    'hooks': {'guard': 'terohuttunen_proto_vulcan_verif',
              'enable': 'none needed: the verifier sees text extracted from /repo on every run and the replay crate uses the public API; no hook commits exist',
              'baseline_off_cmd': 'cd /repo && cargo test --workspace --no-fail-fast --offline',
              'source_commits': [], 'add_only': True},
    'engines': [{'name': 'verus-contracts', 'path': 'tools/check.py',
                 'serves_properties': [c['property_id'] for c in checks],
                 'kind_free_text': 'contract-based deductive verification: functions cut mechanically out of /repo (tools/vcgen.py, rules T1-T14), contracts from contracts/*.vc spliced in, Verus 0.2026.09.13/Z3 discharges every obligation function by function; vacuity canaries; bounded replay harness (replay/) on the real crate for counterexamples and leaf functions'}],
    'checks': checks,
    'not_applicable': na,
    'notes': claims.get('notes', ''),
}
json.dump(m, open(os.path.join(ROOT, 'MANIFEST.json'), 'w'), indent=1)
json.dump({k: v.get('category', 'proof') for k, v in claims['claimed'].items()}, open(os.path.join(ROOT, 'contracts', 'levels.json'), 'w'), indent=1)
json.dump({k: v.get('explanation', '') for k, v in claims['claimed'].items()}, open(os.path.join(ROOT, 'contracts', 'explanations.json'), 'w'), indent=1)
print('MANIFEST.json: %d checks, %d not_applicable' % (len(checks), len(na)))
