"""Contract splicer: reads a contract file (contracts/<unit>.vc), cuts the named items out of
/repo's working tree, applies the fixed transformation rules (DESIGN §3.1, T1..T10) and writes
one Verus source file plus a line map  (generated line -> item / clause / property tags).

Contract file syntax (line oriented; everything that is not a directive is copied verbatim):

  @@type <file> :: <enum|struct> <Name> [:: RULES]
  @@impl <file> :: <container pattern> [:: RULES]        ... emits the (rewritten) impl header + '{'
  @@endimpl                                               ... emits '}'
  @@fn <name>                     (inside @@impl)          or   @@fn <file> :: - :: <name>   (free fn)
      tags C05 C06
      rules T4 T9(Goal) ...
      attr #[verifier::exec_allows_no_decreases_clause]
      ret r
      requires[TAGS] <expr>        (continuation lines: anything not starting with a keyword)
      ensures[TAGS] <expr>
      decreases <expr>
      prologue / end               block spliced at the start of the fn body
      loop N label it
      loop N invariant <expr>
      loop N ensures <expr>
      loop N decreases <expr>
      loopbody N / end             block spliced at the start of the N-th loop body
      after N / end                block spliced right after the N-th loop
  @@end
  @@canary off                    (optional) no assert(false) canary for the next fn
"""
import os
import re
import sys
import json
from rustlex import (lex, code_tokens, tok_hash, match_close, skip_angle, parse_items,
                     header_norm, LexError)

REPO = os.environ.get('VERIF_REPO', '/repo')


class AnchorLost(Exception):
    """The contract names something that cannot be found (any more) in /repo: tool limit."""


# ------------------------------------------------------------------------------------------
# source access

_cache = {}


def load(file):
    if file in _cache:
        return _cache[file]
    path = os.path.join(REPO, file)
    if not os.path.exists(path):
        raise AnchorLost('file %s does not exist' % file)
    src = open(path).read()
    try:
        toks = code_tokens(lex(src))
        items = parse_items(toks, 0, len(toks))
    except (LexError, AssertionError, IndexError) as e:
        raise AnchorLost('cannot parse %s: %s' % (file, e))
    _cache[file] = (src, toks, items)
    return _cache[file]


def find_container(file, pattern):
    src, toks, items = load(file)
    pat = ' '.join(pattern.split())
    keep = '<' in pat
    hits = []
    for it in items:
        if it.kind not in ('impl', 'trait'):
            continue
        h = header_norm(toks, it.kw, it.body_open, keep_generics=keep)
        if h.replace(' ', '') == pat.replace(' ', ''):
            hits.append(it)
    if len(hits) != 1:
        raise AnchorLost('%s :: %s matches %d containers' % (file, pattern, len(hits)))
    return hits[0]


def find_in(file, container_item, kind, name):
    src, toks, items = load(file)
    if container_item is None:
        sub = items
    else:
        sub = parse_items(toks, container_item.body_open + 1, container_item.b)
    hits = [x for x in sub if x.kind == kind and x.name == name]
    if len(hits) != 1:
        raise AnchorLost('%s: %s %s found %d times' % (file, kind, name, len(hits)))
    return hits[0]


# ------------------------------------------------------------------------------------------
# text edits on a token range

class Edits:
    """Collect replacements on a source slice [base_a, base_b) and render."""

    def __init__(self, src, a, b):
        self.src = src
        self.a = a
        self.b = b
        self.ed = []  # (start, end, text, order)

    def replace(self, s, e, text):
        self.ed.append((s, e, text, len(self.ed)))

    def insert(self, pos, text):
        self.ed.append((pos, pos, text, len(self.ed)))

    def render(self):
        out = []
        cur = self.a
        for s, e, text, _ in sorted(self.ed, key=lambda x: (x[0], x[3])):
            if s < cur:
                if e <= cur and s == e:
                    # insertion inside an already replaced range: drop
                    continue
                raise AnchorLost('overlapping edits')
            out.append(self.src[cur:s])
            out.append(text)
            cur = e
        out.append(self.src[cur:self.b])
        return ''.join(out)


DROP_ATTR_PREFIX = ('derive', 'derivative', 'doc', 'inline', 'allow', 'must_use')


def is_cfg_debugger(toks, a, b):
    txt = ''.join(t[1] for t in toks[a:b + 1])
    return txt == '#[cfg(feature="debugger")]'


def erase_bounds_in_generics(toks, lt, names, ed):
    """toks[lt] == '<' of a generics *declaration*. Remove ': Bound' for bounds whose trait name is
    in names (or all if names is None)."""
    end = skip_angle(toks, lt) - 1
    i = lt + 1
    while i < end:
        t = toks[i]
        if t[1] == '=' and toks[i - 1][0] == 'ident':
            # default type parameter (`U = DefaultUser`): dropped together with the bounds
            j = i + 1
            while j < end and toks[j][1] != ',':
                if toks[j][1] == '<':
                    j = skip_angle(toks, j)
                    continue
                j += 1
            ed.replace(toks[i][2], toks[j - 1][3], '')
            i = j
            continue
        if t[1] == ':' and toks[i - 1][0] in ('ident', 'lifetime'):
            # bound list runs to next ',' at depth 0 or end
            j = i + 1
            depth = 0
            while j < end:
                tt = toks[j]
                if tt[1] == '<':
                    j = skip_angle(toks, j)
                    continue
                if tt[1] in ('(', '['):
                    j = match_close(toks, j) + 1
                    continue
                if tt[1] == ',':
                    break
                j += 1
            bound_toks = toks[i + 1:j]
            if bound_erasable(bound_toks, names):
                ed.replace(toks[i][2], toks[j - 1][3], ": 'static" if STATIC_FLAG[0] else '')
            i = j
            continue
        i += 1


def bound_erasable(bound_toks, names):
    # split on '+' at depth 0; erasable only if every part's leading ident is in names
    if names is None:
        return True
    parts = [[]]
    depth = 0
    for t in bound_toks:
        if t[1] == '<':
            depth += 1
        elif t[1] == '>':
            depth -= 1
        if t[1] == '+' and depth == 0:
            parts.append([])
        else:
            parts[-1].append(t)
    for p in parts:
        lead = [t for t in p if t[0] == 'ident']
        if not lead:
            return False
        # path a::b::Trait -> last ident before '<'
        nm = None
        for t in p:
            if t[1] == '<':
                break
            if t[0] == 'ident':
                nm = t[1]
        if nm not in names:
            return False
    return True


def erase_where(toks, a, b, names, ed):
    """Within tokens [a,b) find 'where' ... up to '{' or ';' and erase predicates whose bounds are
    all in names. If all predicates go, the 'where' keyword goes too."""
    i = a
    w = None
    while i < b:
        if toks[i][1] == 'where':
            w = i
            break
        if toks[i][1] == '<':
            i = skip_angle(toks, i)
            continue
        if toks[i][1] in ('(', '['):
            i = match_close(toks, i) + 1
            continue
        if toks[i][1] == '{':
            break
        i += 1
    if w is None:
        return
    # predicates
    preds = []
    i = w + 1
    start = i
    while i < b:
        t = toks[i]
        if t[1] == '<':
            i = skip_angle(toks, i)
            continue
        if t[1] in ('(', '['):
            i = match_close(toks, i) + 1
            continue
        if t[1] == ',' or t[1] in ('{', ';'):
            if i > start:
                preds.append((start, i))  # [start,i) , followed by sep at i
            if t[1] in ('{', ';'):
                break
            start = i + 1
        i += 1
    else:
        if i > start:
            preds.append((start, i))
    kept = 0
    for (s, e) in preds:
        # find ':' at depth 0
        k = s
        colon = None
        while k < e:
            if toks[k][1] == '<':
                k = skip_angle(toks, k)
                continue
            if toks[k][1] == ':':
                colon = k
                break
            k += 1
        if colon is not None and bound_erasable(toks[colon + 1:e], names):
            if STATIC_FLAG[0]:
                # the erased traits all have `'static` as a supertrait: keep that much
                ed.replace(toks[colon + 1][2], toks[e - 1][3], " 'static")
                kept += 1
                continue
            # erase predicate and following comma (if any)
            endpos = toks[e - 1][3]
            if e < len(toks) and toks[e][1] == ',':
                endpos = toks[e][3]
            ed.replace(toks[s][2], endpos, '')
        else:
            kept += 1
    if kept == 0:
        ed.replace(toks[w][2], toks[w][3], '')


def parse_rules(s):
    """'T3(User,Engine) T4 T9(Goal)' -> {'T3': ['User','Engine'], 'T4': [], ...}"""
    rules = {}
    s = s or ''
    i = 0
    while i < len(s):
        m = re.compile(r'T\d+').match(s, i)
        if not m:
            i += 1
            continue
        name = m.group(0)
        i = m.end()
        args = []
        if i < len(s) and s[i] == '(':
            depth = 0
            j = i
            while j < len(s):
                if s[j] == '(':
                    depth += 1
                elif s[j] == ')':
                    depth -= 1
                    if depth == 0:
                        break
                j += 1
            inner = s[i + 1:j]
            args = [x.strip() for x in inner.split(';') if x.strip()]
            i = j + 1
        rules[name] = args
    return rules


STATIC_FLAG = [False]


def t3_names(rules):
    STATIC_FLAG[0] = False
    if 'T3' not in rules:
        return 'none'
    args = rules['T3']
    if any("'static" in a for a in args):
        STATIC_FLAG[0] = True
        args = [a.replace("'static", '') for a in args]
    if not args:
        return None  # all
    out = []
    for a in args:
        out += [x.strip() for x in a.split(',') if x.strip()]
    return out


# ------------------------------------------------------------------------------------------
# emitters

def emit_type(file, kind, name, rules):
    src, toks, items = load(file)
    it = find_in(file, None, kind, name)
    a = it.kw
    # include 'pub'
    k = it.kw
    while k - 1 >= it.a and toks[k - 1][1] in ('pub', ')'):
        if toks[k - 1][1] == ')':
            # pub(crate)
            while toks[k - 1][1] != 'pub':
                k -= 1
        else:
            k -= 1
    ed = Edits(src, toks[k][2], toks[it.b][3])
    names = t3_names(rules)
    if names != 'none':
        j = it.kw + 2
        if toks[j][1] == '<':
            erase_bounds_in_generics(toks, j, names, ed)
        erase_where(toks, it.kw, it.body_open if it.body_open else it.b, names, ed)
    # T2: drop inner attributes on fields/variants; cfg(debugger) ones drop the field too
    if it.body_open is not None:
        i = it.body_open + 1
        while i < it.b:
            if toks[i][1] == '#' and toks[i + 1][1] == '[':
                e = match_close(toks, i + 1)
                if is_cfg_debugger(toks, i, e):
                    # drop through the next ',' at depth 0
                    j = e + 1
                    while j < it.b and toks[j][1] != ',':
                        if toks[j][1] == '<':
                            j = skip_angle(toks, j)
                            continue
                        if toks[j][1] in ('(', '[', '{'):
                            j = match_close(toks, j) + 1
                            continue
                        j += 1
                    ed.replace(toks[i][2], toks[min(j, it.b - 1)][3], '')
                    i = j + 1
                    continue
                ed.replace(toks[i][2], toks[e][3], '')
                i = e + 1
                continue
            i += 1
    if 'T11' in rules and it.body_open is not None:
        # drop named fields (their types need the erased bounds; no verified fn may touch them)
        drop = {}
        for x in rules['T11']:
            k_, _, v_ = x.partition('=')
            drop[k_.strip()] = v_.strip()
        i = it.body_open + 1
        while i < it.b:
            # field start: [pub] name ':'
            fs = i
            while toks[i][1] == 'pub' or toks[i][1] == '#':
                if toks[i][1] == '#':
                    i = match_close(toks, i + 1) + 1
                else:
                    i += 1
                    if toks[i][1] == '(':
                        i = match_close(toks, i) + 1
            nm = toks[i][1]
            j = i
            while j < it.b and toks[j][1] != ',':
                if toks[j][1] == '<':
                    j = skip_angle(toks, j)
                    continue
                if toks[j][1] in ('(', '[', '{'):
                    j = match_close(toks, j) + 1
                    continue
                j += 1
            if nm in drop and toks[i + 1][1] == '(':
                # enum tuple variant: replace the payload types
                e_ = match_close(toks, i + 1)
                ed.replace(toks[i + 1][2], toks[e_][3], drop[nm])
                del drop[nm]
            elif nm in drop:
                if drop[nm]:
                    # keep the field name, replace its type
                    ed.replace(toks[i + 2][2], toks[j - 1][3], drop[nm])
                else:
                    ed.replace(toks[fs][2], toks[min(j, it.b - 1)][3], '')
                del drop[nm]
            i = j + 1
        if drop:
            raise AnchorLost('T11: field(s) %s not found in %s' % (sorted(drop), name))
    if 'T11' in rules and it.body_open is None:
        # tuple struct `struct X<..>(T0, T1) where ..;`: "T11(0=Type)" replaces the type of positional field 0
        want = {}
        for x in rules['T11']:
            k_, _, v_ = x.partition('=')
            want[k_.strip()] = v_.strip()
        j = it.kw + 2
        if toks[j][1] == '<':
            j = skip_angle(toks, j)
        if toks[j][1] != '(':
            raise AnchorLost('T11: %s is not a tuple struct' % name)
        e_ = match_close(toks, j)
        idx = 0
        fs = j + 1
        q = j + 1
        while q <= e_:
            if q == e_ or toks[q][1] == ',':
                if str(idx) in want and fs < q:
                    z = fs
                    while toks[z][1] == 'pub':
                        z += 1
                        if toks[z][1] == '(':
                            z = match_close(toks, z) + 1
                    ed.replace(toks[z][2], toks[q - 1][3], want.pop(str(idx)))
                idx += 1
                fs = q + 1
                q += 1
                continue
            if toks[q][1] == '<':
                q = skip_angle(toks, q)
                continue
            if toks[q][1] in ('(', '[', '{'):
                q = match_close(toks, q) + 1
                continue
            q += 1
        if want:
            raise AnchorLost('T11: positional field(s) %s not found in %s' % (sorted(want), name))
    text = ed.render()
    pre = ''
    for r in rules.get('ATTR', []):
        pre += r + '\n'
    return pre + text + '\n', tok_hash(toks[it.kw:it.b + 1])


def emit_impl_header(file, pattern, rules):
    src, toks, items = load(file)
    it = find_container(file, pattern)
    ed = Edits(src, toks[it.kw][2], toks[it.body_open][2])
    names = t3_names(rules)
    if names != 'none':
        if toks[it.kw + 1][1] == '<':
            erase_bounds_in_generics(toks, it.kw + 1, names, ed)
        erase_where(toks, it.kw, it.body_open, names, ed)
    if 'T5' in rules or 'T9' in rules:
        # re-home: drop "Trait<..> for"
        i = it.kw + 1
        if toks[i][1] == '<':
            i = skip_angle(toks, i)
        j = i
        while j < it.body_open and toks[j][1] != 'for':
            if toks[j][1] == '<':
                j = skip_angle(toks, j)
                continue
            j += 1
        if j >= it.body_open:
            raise AnchorLost('T5: %s is not a trait impl' % pattern)
        ed.replace(toks[i][2], toks[j][3], '')
    if 'T9' in rules or 'T14' in rules:
        # monomorphise the last generic parameter G := <arg>; header "impl<U, E, G> X<U, E, G>"
        g = (rules.get('T9') or rules['T14'])[0]
        gty = {'Goal': 'Goal<U, E>', 'DFSGoal': 'DFSGoal<U, E>'}[g]
        # remove ", G" from the impl generics and replace the G argument of the self type
        lt = it.kw + 1
        gt = skip_angle(toks, lt) - 1
        # find the 'G' param
        found = False
        for k in range(lt + 1, gt):
            if toks[k][1] == 'G' and toks[k - 1][1] == ',':
                e = k
                ed.replace(toks[k - 1][2], toks[e][3], '')
                found = True
        if not found:
            raise AnchorLost('T9: no generic parameter G in %s' % pattern)
        # self type: last '<...>' before body/where
        k = it.body_open - 1
        w = it.kw
        for q in range(it.kw, it.body_open):
            if toks[q][1] == 'where':
                k = q - 1
                break
        if toks[k][1] != '>' or toks[k - 1][1] != 'G':
            raise AnchorLost('T9: self type of %s does not end in G>' % pattern)
        ed.replace(toks[k - 1][2], toks[k - 1][3], gty)
        # a bound on the monomorphised parameter (turned into `G: 'static` by T3) goes with it
        txt = re.sub(r"\bG\s*:\s*'static\s*,?", '', ed.render())
        txt = re.sub(r"\bwhere\s*$", '', txt.rstrip())
        return txt.rstrip() + ' {\n', it
    return ed.render().rstrip() + ' {\n', it


LOOP_KW = ('loop', 'while', 'for')
CLAUSE_KW = ('tags', 'rules', 'attr', 'ret', 'requires', 'ensures', 'decreases', 'prologue',
             'loop', 'loopbody', 'after', 'end', 'safety', 'abstract', 'rename', 'fnname', 'hintafter', 'postpred', 'prepred')


class FnSpec:
    def __init__(self):
        self.name = None
        self.file = None
        self.container = None
        self.tags = []
        self.rules = {}
        self.attrs = []
        self.ret = 'r'
        self.clauses = []     # (kind, tags or None, text)   kind in requires/ensures/decreases
        self.prologue = None
        self.loops = {}       # n -> {'label':..., 'invariant':[(tags,text)], 'ensures':[], 'decreases':[], 'body':text, 'after':text}
        self.canary = True
        self.line = 0
        self.abstracts = []   # (kind 'T12'|'T13', pattern text, replacement text)
        self.hints = []       # (statement pattern, ghost block) spliced right after that statement
        self.preds = {}       # 'requires'|'ensures' -> name of a generated spec predicate (conjunction of those clauses)

    def loop(self, n):
        return self.loops.setdefault(n, {'label': None, 'invariant': [], 'ensures': [],
                                         'decreases': [], 'body': None, 'after': None})


def find_loops(toks, a, b):
    """Indices of loop keywords in [a,b) in source order, with (kw, open, close)."""
    out = []
    i = a
    while i < b:
        t = toks[i]
        if t[0] == 'ident' and t[1] in LOOP_KW and toks[i - 1][1] not in ('.', '::'):
            # 'for' in "impl X for Y" / HRTB cannot occur inside fn bodies we take; guard anyway
            j = i + 1
            while j < b:
                tt = toks[j]
                if tt[1] in ('(', '['):
                    j = match_close(toks, j) + 1
                    continue
                if tt[1] == '{':
                    break
                j += 1
            if j >= b:
                raise AnchorLost('loop without body')
            out.append((i, j, match_close(toks, j)))
        i += 1
    return out


def drop_cfg_debugger(toks, a, b, ed):
    """T2 inside a fn body: '#[cfg(feature = "debugger")]' + the statement it guards."""
    i = a
    n = 0
    while i < b:
        if toks[i][1] == '#' and toks[i + 1][1] == '[':
            e = match_close(toks, i + 1)
            if is_cfg_debugger(toks, i, e):
                j = e + 1
                if toks[j][1] in ('if', 'while', 'for', 'loop', '{', 'match', 'unsafe'):
                    # block-like statement: skip to the end of its (if/else chain of) block(s)
                    while True:
                        while toks[j][1] != '{':
                            if toks[j][1] in ('(', '['):
                                j = match_close(toks, j)
                            j += 1
                        j = match_close(toks, j)
                        if j + 1 < b and toks[j + 1][1] == 'else':
                            j += 2
                            continue
                        break
                    endtok = j
                else:
                    while j < b and toks[j][1] not in (';', ','):
                        if toks[j][1] in ('(', '[', '{'):
                            j = match_close(toks, j)
                        j += 1
                    endtok = j
                ed.replace(toks[i][2], toks[endtok][3], '')
                n += 1
                i = endtok + 1
                continue
        i += 1
    return n


MARK_A = '/*@+*/'
MARK_B = '/*@-*/'


def emit_fn(spec, impl_item, linemap_cb):
    """Returns (text, info). linemap_cb(clause_id, kind, tags, nlines) is called in emission
    order so that the caller can compute line numbers: we return a list of segments instead."""
    file = spec.file
    src, toks, items = load(file)
    it = find_in(file, impl_item, 'fn', spec.name)
    if it.body_open is None:
        raise AnchorLost('fn %s has no body' % spec.name)
    rules = spec.rules
    info = {'fn': spec.name, 'file': file, 'rules': sorted(rules.keys()),
            'src_line': src.count('\n', 0, toks[it.kw][2]) + 1}
    # ---- signature ----
    # start at visibility
    k = it.kw
    while k - 1 >= it.a and toks[k - 1][1] in ('pub', ')', 'const', 'unsafe'):
        if toks[k - 1][1] == ')':
            while toks[k - 1][1] != 'pub':
                k -= 1
        else:
            k -= 1
    sig_a = k
    # params
    p = it.kw + 2
    if toks[p][1] == '<':
        p = skip_angle(toks, p)
    assert toks[p][1] == '(', 'fn %s: no param list' % spec.name
    pe = match_close(toks, p)
    # return type
    arrow = None
    where_i = None
    q = pe + 1
    while q < it.body_open:
        if toks[q][1] == '->' and arrow is None:
            arrow = q
        if toks[q][1] == 'where':
            where_i = q
            break
        if toks[q][1] == '<':
            q = skip_angle(toks, q)
            continue
        if toks[q][1] in ('(', '['):
            q = match_close(toks, q) + 1
            continue
        q += 1
    sig_end = where_i if where_i is not None else it.body_open
    sed = Edits(src, toks[sig_a][2], toks[sig_end - 1][3])
    names = t3_names(rules)
    if names != 'none' and toks[it.kw + 2][1] == '<':
        erase_bounds_in_generics(toks, it.kw + 2, names, sed)
    t4name = (rules.get('T4') or ['self'])[0] if 'T4' in rules else None
    if 'T4' in rules:
        # (mut self, ...) -> (self, ...); T4(k): the same binding-mode desugaring for the parameter `mut k`
        hit4 = False
        for z in range(p + 1, pe):
            if toks[z][1] == 'mut' and toks[z + 1][1] == t4name and toks[z - 1][1] in ('(', ','):
                sed.replace(toks[z][2], toks[z + 1][2], '')
                hit4 = True
        if not hit4:
            raise AnchorLost('T4: fn %s does not take `mut %s`' % (spec.name, t4name))
    if 'T10' in rules:
        # param `other: T` -> `other: &FiniteDomain`; drop generic <T: Borrow<FiniteDomain>>
        g = it.kw + 2
        if toks[g][1] != '<':
            raise AnchorLost('T10: fn %s has no generics' % spec.name)
        ge = skip_angle(toks, g)
        gtxt = ''.join(t[1] for t in toks[g:ge])
        if gtxt != '<T:Borrow<FiniteDomain>>':
            raise AnchorLost('T10: generics of %s are %s' % (spec.name, gtxt))
        sed.replace(toks[g][2], toks[ge - 1][3], '')
        hit = 0
        for z in range(p, pe):
            if toks[z][1] == ':' and toks[z + 1][1] == 'T' and toks[z + 2][1] in (',', ')'):
                sed.replace(toks[z + 1][2], toks[z + 1][3], '&FiniteDomain')
                hit += 1
        if hit != 1:
            raise AnchorLost('T10: %d parameters of type T' % hit)
    if 'T14' in rules:
        # T14: the type parameter G := Goal<U, E> | DFSGoal<U, E> (monomorphisation of a generic impl block or fn);
        # `G::f()` becomes `<Goal<U, E>>::f()`
        gty14 = {'Goal': 'Goal<U, E>', 'DFSGoal': 'DFSGoal<U, E>'}[rules['T14'][0]]
        gq = it.kw + 2
        if toks[gq][1] == '<':
            # a free fn's own generic list: drop ", G"
            ge_ = skip_angle(toks, gq)
            for z in range(gq + 1, ge_ - 1):
                if toks[z][1] == 'G' and toks[z - 1][1] == ',' and toks[z + 1][1] in (',', '>', ':'):
                    sed.replace(toks[z - 1][2], toks[z][3], '')
        for z in range(p, sig_end):
            if toks[z][0] == 'ident' and toks[z][1] == 'G':
                sed.replace(toks[z][2], toks[z][3], ('<%s>' % gty14) if toks[z + 1][1] == '::' else gty14)
    # T13 renames also apply to the signature (e.g. `Self::Item` of a re-homed trait method -> the concrete type)
    for kind_, pat_, repl_ in spec.abstracts:
        if kind_ != 'T13':
            continue
        pt_ = [t[1] for t in code_tokens(lex(pat_))]
        z = p
        while pt_ and z + len(pt_) <= sig_end:
            if [t[1] for t in toks[z:z + len(pt_)]] == pt_:
                sed.replace(toks[z][2], toks[z + len(pt_) - 1][3], repl_)
                z += len(pt_)
            else:
                z += 1
    if 'T5name' in rules:
        sed.replace(toks[it.kw + 1][2], toks[it.kw + 1][3], rules['T5name'][0])
    if arrow is not None:
        sed.insert(toks[arrow + 1][2], '(%s: ' % spec.ret)
        sed.insert(toks[sig_end - 1][3], ')')
    sig = sed.render()
    where_txt = ''
    if where_i is not None:
        wed = Edits(src, toks[where_i][2], toks[it.body_open - 1][3])
        if names != 'none':
            erase_where(toks, where_i, it.body_open, names, wed)
        where_txt = wed.render().strip()
        if 'T14' in rules:
            where_txt = re.sub(r"\bG\s*:\s*'static\s*,?", '', where_txt).strip()
            if where_txt == 'where':
                where_txt = ''
            # the type parameter inside other bounds of the fn's own where clause (`I: Iterator<Item = G>`)
            where_txt = re.sub(r'\bG\b', {'Goal': 'Goal<U, E>', 'DFSGoal': 'DFSGoal<U, E>'}[rules['T14'][0]], where_txt)
    # ---- body ----
    ba, bb = it.body_open, it.b
    bed = Edits(src, toks[ba][3], toks[bb][2])
    ndbg = drop_cfg_debugger(toks, ba + 1, bb, bed)
    if ndbg:
        info['cfg_debugger_dropped'] = ndbg
    loops = find_loops(toks, ba + 1, bb)
    info['loops'] = len(loops)
    segs = []   # for the body: we render first, then split on sentinel lines

    def block(txt, cid, kind, tags):
        # a spliced block gets sentinel comments so that lines can be mapped afterwards
        return '\n%s//@@%s|%s|%s\n%s\n%s\n' % (MARK_A, cid, kind, ','.join(tags or []), txt.rstrip(), MARK_B)

    for n, L in sorted(spec.loops.items()):
        if n >= len(loops):
            raise AnchorLost('fn %s: loop %d not found (has %d loops)' % (spec.name, n, len(loops)))
        kw, op, cl = loops[n]
        if toks[kw][1] == 'for':
            # label the ghost iterator
            lab = L['label'] or 'it'
            z = kw + 1
            while z < op and toks[z][1] != 'in':
                if toks[z][1] in ('(', '['):
                    z = match_close(toks, z)
                z += 1
            if z >= op:
                raise AnchorLost('for without in')
            bed.insert(toks[z][3], ' %s%s:%s' % (MARK_A, lab, MARK_B))
        hdr = ''
        for ck in ('invariant', 'ensures', 'decreases'):
            for idx, (tg, tx) in enumerate(L[ck]):
                cid = '%s#loop%d#%s#%d' % (spec.name, n, ck, idx)
                hdr += '\n%s//@@%s|%s|%s\n    %s %s,\n%s' % (MARK_A, cid, 'loop-' + ck, ','.join(tg or []), ck if idx == 0 else '', tx.rstrip().rstrip(','), MARK_B)
        if hdr:
            bed.insert(toks[op][2], hdr + '\n')
        if L['body']:
            bed.insert(toks[op][3], block(L['body'], '%s#loop%d#bodyprologue' % (spec.name, n), 'hint', None))
        if L['after']:
            bed.insert(toks[cl][3], block(L['after'], '%s#loop%d#epilogue' % (spec.name, n), 'hint', None))
    # T12 / T13: exact token-sequence rewrites named in the contract
    replaced_tok = set()
    for kind, pat, repl in spec.abstracts:
        ptoks = [t[1] for t in code_tokens(lex(pat))]
        if not ptoks:
            raise AnchorLost('%s: empty pattern' % kind)
        hits = []
        z = ba + 1
        while z + len(ptoks) <= bb:
            if [t[1] for t in toks[z:z + len(ptoks)]] == ptoks:
                hits.append(z)
                z += len(ptoks)
            else:
                z += 1
        if kind == 'T12' and len(hits) != 1:
            raise AnchorLost('T12: expression `%s` occurs %d times in fn %s' % (pat[:60], len(hits), spec.name))
        # T13 is a call-site fix-up, not an anchor of a specification: a path that no longer occurs needs no renaming
        for z in hits:
            bed.replace(toks[z][2], toks[z + len(ptoks) - 1][3], repl)
            replaced_tok.update(range(z, z + len(ptoks)))
        info.setdefault('rewrites', []).append({'rule': kind, 'source': pat, 'emitted': repl, 'count': len(hits)})
        rules.setdefault(kind, [])
    # ghost-only hint blocks anchored after a statement that is named by its exact tokens (T7 extension)
    for hn, (pat, blocktxt) in enumerate(spec.hints):
        ptoks = [t[1] for t in code_tokens(lex(pat))]
        hits = []
        z = ba + 1
        while z + len(ptoks) <= bb:
            if [t[1] for t in toks[z:z + len(ptoks)]] == ptoks:
                hits.append(z)
            z += 1
        # optional ordinal prefix "[k]" selects the k-th of exactly-as-many-as-stated occurrences: "[2/2] tokens"
        want = 1
        total = 1
        m_ = re.match(r'^\[(\d+)/(\d+)\]\s*(.*)$', pat, re.S)
        if m_:
            want, total = int(m_.group(1)), int(m_.group(2))
            ptoks = [t[1] for t in code_tokens(lex(m_.group(3)))]
            hits = []
            z = ba + 1
            while z + len(ptoks) <= bb:
                if [t[1] for t in toks[z:z + len(ptoks)]] == ptoks:
                    hits.append(z)
                z += 1
        if len(hits) != total or ptoks[-1] != ';':
            raise AnchorLost('hintafter: statement `%s` occurs %d times in fn %s (expected %d)' % (pat[:60], len(hits), spec.name, total))
        bed.insert(toks[hits[want - 1] + len(ptoks) - 1][3], block(blocktxt, '%s#hint%d' % (spec.name, hn), 'hint', None))
    # T4 rename self -> self_
    if 'T4' in rules:
        for z in range(ba + 1, bb):
            if z in replaced_tok:
                continue   # inside a T12/T13 rewrite: the replacement text is written with `self_` already
            if toks[z][0] == 'ident' and toks[z][1] == t4name:
                bed.replace(toks[z][2], toks[z][3], t4name + '_')
    if 'T14' in rules:
        gty14 = {'Goal': 'Goal<U, E>', 'DFSGoal': 'DFSGoal<U, E>'}[rules['T14'][0]]
        n14 = 0
        for z in range(ba + 1, bb):
            if z in replaced_tok:
                continue
            if toks[z][0] == 'ident' and toks[z][1] == 'G':
                bed.replace(toks[z][2], toks[z][3], ('<%s>' % gty14) if toks[z + 1][1] == '::' else gty14)
                n14 += 1
            elif toks[z][0] == 'ident' and toks[z][1] in rules['T14'][1:] and toks[z + 1][1] == '::' and toks[z + 2][1] != '<':
                # a path into another monomorphised impl block: name the instance (`X::f` -> `X::<U, E, Goal<U, E>>::f`)
                bed.insert(toks[z][3], '::<U, E, %s>' % gty14)
                n14 += 1
        info.setdefault('rewrites', []).append({'rule': 'T14', 'source': 'G', 'emitted': gty14, 'count': n14})
    if 'T10' in rules:
        hits = 0
        for z in range(ba + 1, bb - 8):
            # `let other = other.borrow();` is the identity rebinding after specialisation: dropped
            if [t[1] for t in toks[z:z + 9]] == ['let', 'other', '=', 'other', '.', 'borrow', '(', ')', ';']:
                bed.replace(toks[z][2], toks[z + 8][3], '')
                info['T10_rebinding_dropped'] = True
                dropped = range(z, z + 9)
        for z in range(ba + 1, bb - 3):
            if info.get('T10_rebinding_dropped') and z in dropped:
                continue
            if (toks[z][1] == 'other' and toks[z + 1][1] == '.' and toks[z + 2][1] == 'borrow'
                    and toks[z + 3][1] == '(' and toks[z + 4][1] == ')'):
                bed.replace(toks[z + 1][2], toks[z + 4][3], '')
                hits += 1
        info['T10_borrow_calls'] = hits
    if 'T9' in rules:
        g = rules['T9'][0]
        # pattern: self . as_any ( ) . downcast_ref :: < TYPE > ( )
        z = ba + 1
        seen = {}
        while z < bb - 8:
            if ([t[1] for t in toks[z:z + 8]] == ['self', '.', 'as_any', '(', ')', '.', 'downcast_ref', '::']
                    and toks[z + 8][1] == '<'):
                e = skip_angle(toks, z + 8)
                ty = ''.join(t[1] for t in toks[z + 9:e - 1])
                if toks[e][1] != '(' or toks[e + 1][1] != ')':
                    raise AnchorLost('T9: unexpected downcast_ref call shape')
                # which instance?
                m = re.search(r',(DFSGoal|Goal)<U,E>>$', ty)
                if not m:
                    raise AnchorLost('T9: downcast target %s not recognised' % ty)
                tysrc = src[toks[z + 9][2]:toks[e - 2][3]]
                if m.group(1) == g:
                    bed.replace(toks[z][2], toks[e + 1][3], 'Some(self)')
                else:
                    bed.replace(toks[z][2], toks[e + 1][3], 'None::<&%s>' % tysrc)
                seen[m.group(1)] = seen.get(m.group(1), 0) + 1
                z = e + 2
                continue
            z += 1
        if seen != {'Goal': 1, 'DFSGoal': 1}:
            raise AnchorLost('T9: expected one downcast to each of Goal/DFSGoal, saw %r' % seen)
    body = bed.render()
    pro = ''
    if 'T4' in rules:
        pro += '\n%s let mut %s_ = %s; %s' % (MARK_A, t4name, t4name, MARK_B)
    if spec.prologue:
        pro += block(spec.prologue, '%s#prologue' % spec.name, 'hint', None)
    # ---- assemble ----
    out = []
    for a_ in spec.attrs:
        out.append(a_)
    out.append(sig)
    if where_txt:
        out.append(where_txt)
    for ck in ('requires', 'ensures', 'decreases'):
        cl = [(i, c) for i, c in enumerate(spec.clauses) if c[0] == ck]
        if cl:
            out.append('    ' + ck)
        for idx, (i, c) in enumerate(cl):
            cid = '%s#%s#%d' % (spec.name, ck, idx)
            out.append('//@@%s|%s|%s' % (cid, ck, ','.join(c[1] or [])))
            out.append('        %s,' % (c[2].rstrip().rstrip(',')))
    out.append('{' + pro + body + '}')
    text = '\n'.join(out) + '\n'
    if spec.preds:
        text = clause_predicates(spec, sig) + text
    info['body_hash_src'] = tok_hash(toks[ba:bb + 1])
    # self-check: emitted body minus splices, with the rewrite rules undone, equals the source
    info['body_hash_emitted'] = emitted_hash('{' + pro + body + '}', rules)
    info['sig_hash_src'] = tok_hash(toks[sig_a:it.body_open])
    if not rules.keys() & {'T4', 'T9', 'T10', 'T12', 'T13', 'T14'} and not ndbg:
        if info['body_hash_src'] != info['body_hash_emitted']:
            raise AnchorLost('internal: body hash mismatch for %s' % spec.name)
    return text, info


def clause_predicates(spec, sig):
    """`postpred NAME` / `prepred NAME`: `pub open spec fn NAME(<the function's parameters>[, r: Ret]) -> bool` whose body
    is the conjunction of the ensures / requires clauses, emitted next to the function."""
    toks = code_tokens(lex(sig))
    k = next(i for i, t in enumerate(toks) if t[1] == 'fn')
    q = k + 2
    gen = ''
    if toks[q][1] == '<':
        e = skip_angle(toks, q)
        gen = sig[toks[q][2]:toks[e - 1][3]]
        q = e
    if toks[q][1] != '(':
        raise AnchorLost('postpred: cannot read the parameter list of %s' % spec.name)
    pe = match_close(toks, q)
    params = sig[toks[q][3]:toks[pe][2]].strip().rstrip(',')
    params = re.sub(r'\bmut\s+(?=\w+\s*:)', '', params)
    if re.search(r'&\s*mut\s+self', params):
        raise AnchorLost('postpred: %s takes &mut self' % spec.name)
    ret = None
    if pe + 1 < len(toks) and toks[pe + 1][1] == '->':
        ret = sig[toks[pe + 2][2]:toks[-1][3]].strip()
        if ret.startswith('('):
            ret = ret[1:-1].strip()          # "(r: T)" -> "r: T"
    out = ''
    for ck, name in sorted(spec.preds.items()):
        cl = [c for c in spec.clauses if c[0] == ck]
        ps = params
        if ck == 'ensures' and ret:
            ps = (ps + ', ' if ps else '') + ret
        body = '\n'.join('        &&& (%s)' % c[2].rstrip().rstrip(',') for c in cl) or '        true'
        out += '%spub closed spec fn %s%s(%s) -> bool {\n%s\n}%s\n' % (MARK_A, name, gen, ps, body, MARK_B)
    return out


def emitted_hash(text, rules):
    # strip marked regions
    out = []
    i = 0
    while True:
        j = text.find(MARK_A, i)
        if j < 0:
            out.append(text[i:])
            break
        out.append(text[i:j])
        k = text.find(MARK_B, j)
        i = k + len(MARK_B)
    return tok_hash(code_tokens(lex(''.join(out))))


# ------------------------------------------------------------------------------------------
# contract file parser / generator

def split_tags(word):
    m = re.match(r'^(\w+)\[([^\]]*)\]$', word)
    if m:
        return m.group(1), [x for x in re.split(r'[ ,]+', m.group(2)) if x]
    return word, None


def parse_fn_block(lines, start, spec):
    """lines[start:] up to '@@end'. Returns index after @@end."""
    i = start
    cur = None  # (kind, tags, [text]) being accumulated

    def flush():
        nonlocal cur
        if cur is None:
            return
        kind, tags, buf, loopn = cur
        text = '\n'.join(buf).strip()
        if loopn is None:
            spec.clauses.append((kind, tags, text))
        else:
            spec.loop(loopn)[kind].append((tags, text))
        cur = None

    while i < len(lines):
        raw = lines[i]
        s = raw.strip()
        if s == '@@end':
            flush()
            return i + 1
        if not s or s.startswith('//'):
            if cur is not None and s.startswith('//'):
                pass
            i += 1
            continue
        first = s.split(None, 1)[0]
        kw, tags = split_tags(first)
        rest = s[len(first):].strip()
        if kw in CLAUSE_KW:
            flush()
            if kw == 'tags':
                spec.tags = rest.split()
            elif kw == 'rules':
                spec.rules.update(parse_rules(rest))
            elif kw == 'attr':
                spec.attrs.append(rest)
            elif kw == 'ret':
                spec.ret = rest
            elif kw in ('requires', 'ensures', 'decreases'):
                cur = (kw, tags, [rest], None)
            elif kw in ('abstract', 'rename'):
                # abstract <replacement> := <source tokens>      (T12: leaf expression -> stub call)
                # rename   <source path> => <new path>           (T13: callee re-homed by T5)
                buf = [rest]
                while i + 1 < len(lines) and lines[i + 1].strip() and \
                        split_tags(lines[i + 1].strip().split(None, 1)[0])[0] not in CLAUSE_KW and \
                        not lines[i + 1].strip().startswith('@@') and not lines[i + 1].strip().startswith('//'):
                    i += 1
                    buf.append(lines[i].strip())
                txt = ' '.join(buf)
                if kw == 'abstract':
                    repl, _, pat = txt.partition(':=')
                    spec.abstracts.append(('T12', pat.strip(), repl.strip()))
                else:
                    pat, _, repl = txt.partition('=>')
                    spec.abstracts.append(('T13', pat.strip(), repl.strip()))
            elif kw == 'fnname':
                spec.rules['T5name'] = [rest]
            elif kw in ('postpred', 'prepred'):
                # the conjunction of this function's ensures (requires) clauses as a named spec predicate over its
                # parameters (and result): the text a dispatch axiom uses is then mechanically the text the body proves
                spec.preds['ensures' if kw == 'postpred' else 'requires'] = rest
            elif kw == 'hintafter':
                # hintafter <exact tokens of one statement, ending in ';'>  ...ghost block... end
                buf = []
                i += 1
                while lines[i].strip() != 'end':
                    buf.append(lines[i])
                    i += 1
                spec.hints.append((rest, '\n'.join(buf)))
            elif kw == 'prologue':
                buf = []
                i += 1
                while lines[i].strip() != 'end':
                    buf.append(lines[i])
                    i += 1
                spec.prologue = '\n'.join(buf)
            elif kw in ('loopbody', 'after'):
                n = int(rest)
                buf = []
                i += 1
                while lines[i].strip() != 'end':
                    buf.append(lines[i])
                    i += 1
                spec.loop(n)['body' if kw == 'loopbody' else 'after'] = '\n'.join(buf)
            elif kw == 'loop':
                parts = rest.split(None, 2)
                n = int(parts[0])
                sub, stags = split_tags(parts[1])
                arg = parts[2] if len(parts) > 2 else ''
                if sub == 'label':
                    spec.loop(n)['label'] = arg.strip()
                elif sub in ('invariant', 'ensures', 'decreases'):
                    cur = (sub, stags, [arg], n)
                else:
                    raise SystemExit('bad loop clause: %s' % s)
            elif kw == 'end':
                raise SystemExit('stray end at line %d' % (i + 1))
            i += 1
            continue
        # continuation
        if cur is None:
            raise SystemExit('contract syntax error at line %d: %s' % (i + 1, s))
        cur[2].append(raw.rstrip())
        i += 1
    raise SystemExit('missing @@end')


def generate(vc_path, canary=False):
    """Returns dict(text=..., linemap=[...], fns=[info...], types=[...], errors=[...])"""
    _cache.clear()
    lines = []

    defines = set()

    def slurp(path, depth=0):
        # @@define NAME / @@ifdef NAME / @@ifndef NAME / @@endif: a shared include file can leave a section out for
        # a unit that brings its own (e.g. unit `unify` verifies the real SMap instead of the opaque stub)
        skip = []
        for ln in open(path).read().split('\n'):
            st = ln.strip()
            if st.startswith('@@ifdef') or st.startswith('@@ifndef'):
                name = st.split(None, 1)[1]
                skip.append((name in defines) != st.startswith('@@ifdef'))
                continue
            if st == '@@endif':
                skip.pop()
                continue
            if any(skip):
                continue
            if st.startswith('@@define'):
                defines.add(st.split(None, 1)[1])
            elif st.startswith('@@include'):
                inc = st.split(None, 1)[1]
                slurp(os.path.join(os.path.dirname(vc_path), inc), depth + 1)
            else:
                lines.append(ln)
    slurp(vc_path)
    out = []           # output text chunks
    linemap = []       # filled after assembling
    fns = []
    types = []
    cur_impl = None    # (file, pattern, item)
    i = 0
    canary_next = True
    while i < len(lines):
        ln = lines[i]
        s = ln.strip()
        if s.startswith('@@type'):
            parts = [x.strip() for x in s[len('@@type'):].split('::')]
            file = parts[0]
            kind, name = parts[1].split()
            rules = parse_rules(parts[2]) if len(parts) > 2 else {}
            # attrs: "attr=..." not needed; accept_recursive_types via ATTR lines following
            attrs = []
            while i + 1 < len(lines) and lines[i + 1].strip().startswith('@@attr'):
                attrs.append(lines[i + 1].strip()[len('@@attr'):].strip())
                i += 1
            rules['ATTR'] = attrs
            text, h = emit_type(file, kind, name, rules)
            out.append('// >>> extracted %s %s from %s [%s]\n' % (kind, name, file, ' '.join(k for k in rules if k != 'ATTR')))
            out.append(text)
            types.append({'type': name, 'file': file, 'hash': h, 'rules': [k for k in rules if k != 'ATTR']})
            i += 1
            continue
        if s.startswith('@@impl'):
            parts = [x.strip() for x in s[len('@@impl'):].split('::')]
            # pattern itself may contain '::'? (no: patterns use bare names)
            file = parts[0]
            pattern = parts[1]
            rules = parse_rules(parts[2]) if len(parts) > 2 else {}
            hdr, item = emit_impl_header(file, pattern, rules)
            out.append('// >>> impl header extracted from %s :: %s [%s]\n' % (file, pattern, ' '.join(rules)))
            out.append(hdr)
            cur_impl = (file, pattern, item, rules)
            i += 1
            continue
        if s == '@@endimpl':
            out.append('}\n')
            cur_impl = None
            i += 1
            continue
        if s.startswith('@@canary off'):
            canary_next = False
            i += 1
            continue
        if s.startswith('@@fn'):
            spec = FnSpec()
            spec.line = i + 1
            arg = s[len('@@fn'):].strip()
            if '::' in arg:
                parts = [x.strip() for x in arg.split('::')]
                spec.file = parts[0]
                spec.container = None if parts[1] == '-' else parts[1]
                spec.name = parts[2]
                impl_item = None if spec.container is None else find_container(spec.file, spec.container)
            else:
                if cur_impl is None:
                    raise SystemExit('@@fn %s outside @@impl' % arg)
                spec.file, spec.container, impl_item, irules = cur_impl
                spec.name = arg
                # impl-level T3/T9 rules are inherited
                for k in ('T3', 'T9', 'T14'):
                    if k in irules:
                        spec.rules[k] = irules[k]
            i = parse_fn_block(lines, i + 1, spec)
            spec.canary = canary_next
            canary_next = True
            text, info = emit_fn(spec, impl_item, None)
            if canary and spec.canary:
                # put assert(false) as the very first statement of the body
                # body starts at the first line that is exactly '{' + ...: find "\n{" after clauses
                k = text.index('\n{') + 2
                text = text[:k] + ' assert(false); /*canary*/ ' + text[k:]
            qual = '%s :: %s%s :: %s' % (spec.file, spec.container or '-',
                                         '[G=%s]' % (spec.rules.get('T9') or spec.rules.get('T14'))[0] if ('T9' in spec.rules or 'T14' in spec.rules) else '', spec.name)
            info['qual'] = qual
            info['tags'] = spec.tags
            info['container'] = spec.container
            info['canary'] = spec.canary
            info['clauses'] = [{'id': None}]
            out.append('// >>> extracted fn %s\n' % qual)
            out.append(('FN', text, info, spec))
            fns.append(info)
            continue
        out.append(ln + '\n')
        i += 1
    # assemble + line map
    text = ''
    lm = []   # (line_start, line_end, fn_qual, clause_id, kind, tags)
    for ch in out:
        if isinstance(ch, tuple):
            _, t, info, spec = ch
            start_line = text.count('\n') + 1
            tl = t.split('\n')
            info['gen_lines'] = [start_line, start_line + len(tl) - 1]
            # clause sentinels
            cur = None
            for off, l in enumerate(tl):
                m = re.search(r'//@@([^|]+)\|([^|]*)\|(.*)$', l)
                if m:
                    if cur:
                        cur[1] = start_line + off - 1
                    cur = [start_line + off, None, info['qual'], m.group(1), m.group(2),
                           [x for x in m.group(3).split(',') if x]]
                    lm.append(cur)
                    continue
                if cur is not None:
                    ls = l.strip()
                    if cur[4] in ('requires', 'ensures', 'decreases'):
                        # clause text ends at the next sentinel or at the body '{'
                        if l.startswith('{'):
                            cur[1] = start_line + off - 1
                            cur = None
                    elif MARK_B in l:
                        cur[1] = start_line + off
                        cur = None
            if cur:
                cur[1] = start_line + len(tl) - 1
            text += t
        else:
            # sentinels in specification text (e.g. the clauses of a declared trait method)
            base = text.count('\n') + 1
            cl = ch.split('\n')
            for off, l in enumerate(cl):
                m = re.match(r'\s*//@@([^|]+)\|([^|]*)\|(.*)$', l)
                if m:
                    e = off + 1
                    while e < len(cl) - 1 and not cl[e].rstrip().endswith((',', ';')):
                        e += 1
                    lm.append([base + off, base + e, '(spec)', m.group(1), m.group(2),
                               [x for x in m.group(3).split(',') if x]])
            text += ch
    # clause inventory per fn
    for info in fns:
        info['clauses'] = [{'id': c[3], 'kind': c[4], 'tags': c[5], 'lines': [c[0], c[1]]}
                           for c in lm if c[2] == info['qual']]
    return {'text': text, 'linemap': lm, 'fns': fns, 'types': types}


if __name__ == '__main__':
    r = generate(sys.argv[1], canary=('--canary' in sys.argv))
    open(sys.argv[2], 'w').write(r['text'])
    json.dump({'fns': r['fns'], 'types': r['types'], 'linemap': r['linemap']},
              open(sys.argv[2] + '.map.json', 'w'), indent=1)
    print('generated %s: %d fns, %d types, %d clauses' % (sys.argv[2], len(r['fns']), len(r['types']), len(r['linemap'])))
