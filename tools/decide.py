"""Obligations x known findings -> exit code, VIOLATION / KNOWN-FINDING lines, evidence file."""
import os
import sys
import json
import time
import subprocess
import concurrent.futures as cf

HERE = os.path.dirname(os.path.abspath(__file__))
ROOT = os.path.dirname(HERE)
REPO = os.environ.get('VERIF_REPO', '/repo')


def load_known():
    p = os.path.join(ROOT, 'known_findings.json')
    if not os.path.exists(p):
        return []
    return json.load(open(p))


def obligations_for(prop, gen):
    """-> list of (obligation id, kind, text-sample)"""
    out = []
    fn_by_qual = {f['qual']: f for f in gen['fns']}
    for c in gen['linemap']:
        line_a, line_b, owner, cid, kind, tags = c
        if kind == 'hint':
            continue
        if tags:
            if prop in tags:
                out.append((owner + ' :: ' + cid, kind))
        else:
            f = fn_by_qual.get(owner)
            if f and prop in f['tags']:
                out.append((owner + ' :: ' + cid, kind))
    for f in gen['fns']:
        if prop in f['tags']:
            out.append((f['qual'] + ' :: #body', 'body-safety'))
    return out


def failure_obligation(e):
    if e.get('clause'):
        base = e['clause']
        # invariant failures distinguish init/end but it is one obligation
        return (e.get('clause_owner') or e.get('fn') or '(prelude)') + ' :: ' + base
    return (e.get('fn') or '(prelude)') + ' :: #body'


def git_head(path):
    try:
        return subprocess.run(['git', '-C', path, 'rev-parse', '--short', 'HEAD'], capture_output=True,
                              text=True).stdout.strip()
    except Exception:
        return '?'


def run(prop, tier, seed, replay, UNITS, build_unit, run_verus, scan_assumptions):
    t0 = time.time()
    if replay:
        import replay_driver as _rd
        rc = _rd.do_replay(prop, replay)
        if rc is not None:
            return rc
        # no concrete input recorded: re-run the check; the exit code says whether it still fails
    units = [u for u in UNITS if prop in UNITS[u]['properties']]
    if not units:
        print('UNDECIDED property=%s reason=no unit serves this property' % prop)
        return 2
    work = os.path.join(os.environ.get('VERIF_WORK', os.path.join(ROOT, '.work')), prop)
    os.makedirs(work, exist_ok=True)
    results = {}
    with cf.ThreadPoolExecutor(max(1, len(units))) as ex:
        futs = {u: ex.submit(build_unit, u, os.path.join(work, u)) for u in units}
        for u, f in futs.items():
            results[u] = f.result()

    known = [k for k in load_known() if k.get('property') == prop]
    open_known = [k for k in known if k.get('status') == 'open']

    obligations = []
    failed = {}     # obligation id -> [entries]
    undecided = []
    all_assumptions = []
    fns_under_contract = []
    solver_ms = 0
    checker_cmds = []
    canaries = {'n': 0, 'failed_as_expected': 0}
    verified_items = 0
    extra_runs = []
    hint_notes = []
    for u, r in results.items():
        if r['status'] != 'ok':
            undecided.append((u, r['status'], r.get('reason', '')))
            # even so, verification failures that *were* reported are evaluated below
        gen = r.get('gen')
        if gen is None:
            continue
        for ob in obligations_for(prop, gen):
            if not any(o['id'] == ob[0] for o in obligations):   # shared functions appear in several units
                obligations.append({'unit': u, 'id': ob[0], 'kind': ob[1]})
        for f in gen['fns']:
            if prop in f['tags'] or any(prop in (c['tags'] or []) for c in f['clauses']):
                st = None
                for k, v in (r.get('fn_stats') or {}).items():
                    nm = f['fn']
                    cont = (f.get('container') or '').split()[-1] if f.get('container') else ''
                    if k.endswith('::' + nm) and (not cont or ('::' + cont.split('<')[0] + '::') in k or cont == '-'):
                        st = v
                fns_under_contract.append({
                    'fn': f['qual'], 'src_line': f.get('src_line'), 't_rules': f['rules'],
                    'body_hash': f['body_hash_src'], 'emitted_hash': f['body_hash_emitted'],
                    'loops': f.get('loops'), 'smt_us': (st or {}).get('time-micros'),
                    'rlimit': (st or {}).get('rlimit')})
        if 'verus' in r:
            checker_cmds.append('(cd %s && %s)' % (os.path.relpath(os.path.join(work, u), ROOT), r['verus']['cmd']))
            solver_ms += r.get('smt_ms') or 0
            verified_items += r.get('verified', 0)
        c = r.get('canaries') or {}
        canaries['n'] += c.get('n', 0)
        canaries['failed_as_expected'] += c.get('failed_as_expected', 0)
        all_assumptions += [u + ': ' + a for a in scan_assumptions(gen['text'])]
        for e in r.get('failures', []):
            if e.get('in_prelude'):
                # a lemma of the specification text no longer proves (an extracted type changed shape): the proof is
                # broken, nothing is known about the property -> tool limit, bounded fallback
                undecided.append((u, 'spec-lemma-failed', (e.get('message') or '') + ' @ ' + str(e.get('where'))))
                continue
            if prop not in (e.get('tags') or []):
                continue
            if e.get('clause_kind') == 'hint' and e.get('hint_status') == 'removed':
                # a ghost hint block (scaffolding, not an obligation derived from the property) failed; the unit was
                # verified again without it (check.strip_failed_hints) and the clauses that fail there are listed
                # separately - the hint itself decides nothing
                hint_notes.append('%s @ %s' % (e.get('clause'), e.get('fn')))
                continue
            failed.setdefault(failure_obligation(e), []).append(dict(e, unit=u))
        for e in r.get('limits', []):
            if prop in (e.get('tags') or []) or not e.get('tags'):
                undecided.append((u, 'rlimit', e.get('message', '')[:200] + ' @ ' + str(e.get('fn'))))

    # thorough: proof stability under other SMT seeds
    if tier == 'thorough' and not undecided:
        seeds = [seed + 1, seed + 2, seed + 3]
        for u, r in results.items():
            if r['status'] != 'ok':
                continue
            for sd in seeds:
                rr = run_verus(r['main_rs'], os.path.dirname(r['main_rs']), 'seed%d' % sd,
                               list(UNITS[u].get('verus_args', [])) + ['--smt-option', 'smt.random_seed=%d' % sd])
                ok = rr['json'] is not None and rr['json'].get('verification-results', {}).get('errors', 1) == r.get('errors', 0)
                extra_runs.append({'unit': u, 'smt.random_seed': sd, 'same_result': ok,
                                   'verified': (rr['json'] or {}).get('verification-results', {}).get('verified')})
                if not ok:
                    undecided.append((u, 'unstable-proof', 'result changes with smt.random_seed=%d' % sd))

    # ---- replay harness (bounded search for a concrete failing input) ----
    import replay_driver
    violations = []
    known_lines = []
    for ob, entries in sorted(failed.items()):
        match = None
        for k in open_known:
            if k.get('obligation') == ob or (k.get('obligation_prefix') and ob.startswith(k['obligation_prefix'])):
                match = k
        rp = replay_driver.make_replay(prop, ob, entries, work, tier, seed, match)
        if match is not None and not rp.get('outside_known_class'):
            known_lines.append('KNOWN-FINDING: property=%s %s [%s]' % (prop, match.get('what', ob), ob))
            continue
        violations.append((ob, rp))

    # tool limit: try the bounded harness for a concrete failing input (real by construction)
    if undecided and not violations:
        rp = replay_driver.bounded_fallback(prop, undecided, work, tier, seed, open_known)
        if rp is not None:
            violations.append((rp['obligation'], rp))

    # bounded stand-ins of leaf functions (assumed contracts), never counted as proved
    bounded = replay_driver.bounded_leaves(prop, work, tier, seed, open_known)
    for b in bounded.get('violations', []):
        violations.append((b['obligation'], b))
    for u_ in bounded.get('undecided', []):
        undecided.append(('replay', 'harness-build', u_))
    known_lines += bounded.get('known_lines', [])

    ids_failed = set(failed.keys())
    known_ids = set()
    for ob in ids_failed:
        for k in open_known:
            if k.get('obligation') == ob or (k.get('obligation_prefix') and ob.startswith(k['obligation_prefix'])):
                known_ids.add(ob)
    claimed = [o for o in obligations if o['id'] not in known_ids]
    discharged = [o for o in claimed if o['id'] not in ids_failed]

    wall = time.time() - t0
    level = json.load(open(os.path.join(ROOT, 'contracts', 'levels.json'))).get(prop, 'proof')
    samples = []
    for u, r in results.items():
        gen = r.get('gen')
        if not gen:
            continue
        lines = gen['text'].split('\n')
        for c in gen['linemap']:
            oid = c[2] + ' :: ' + c[3]
            if any(o['id'] == oid for o in obligations) and len(samples) < 12:
                samples.append({'obligation': oid, 'kind': c[4],
                                'text': ' '.join(x.strip() for x in lines[c[0]:(c[1] or c[0])])[:400]})
    ev = {
        'property_id': prop,
        'tier': tier,
        'seed': seed,
        'level': level,
        'coverage': {
            'obligations': len(claimed),
            'discharged': len(discharged),
            'checker_cmd': ' ; '.join(checker_cmds) or 'none (extraction failed)',
            'trusted_base': sorted(set(all_assumptions)),
            'backend': 'Verus 0.2026.09.13 / Z3 (function-modular; each caller checked against callee contracts)',
            'functions_under_contract': fns_under_contract,
            'verus_items_verified_in_units': verified_items,
            'solver_ms': solver_ms,
            'canaries': canaries,
            'bounded': bounded.get('report', []),
            'stability_runs': extra_runs,
            'samples': samples,
            'known_findings': [k for k in known],
            'known_finding_obligations': sorted(known_ids),
            'undecided': [list(x) for x in undecided],
            'hints_failed_and_removed': hint_notes,
            'repo_head': git_head(REPO),
            'units': units,
            'explanation': json.load(open(os.path.join(ROOT, 'contracts', 'explanations.json'))).get(prop, ''),
        },
        'assumptions': sorted(set(all_assumptions))[:400],
        'wall_s': round(wall, 2),
        'violations': len(violations),
    }
    if bounded.get('evaluations'):
        ev['coverage']['evaluations'] = bounded['evaluations']
        ev['coverage']['distinct_nontrivial'] = bounded.get('distinct_nontrivial', 0)
        ev['coverage']['rule'] = bounded.get('rule', '')
    os.makedirs(os.path.join(ROOT, 'evidence'), exist_ok=True)
    if not os.environ.get('VERIF_NO_EVIDENCE'):
        json.dump(ev, open(os.path.join(ROOT, 'evidence', prop + '.json'), 'w'), indent=1)

    for l in known_lines:
        print(l)
    if violations:
        for ob, rp in violations:
            tail = '' if rp.get('failing_input') else ' no-failing-input-found'
            print('obligation failed: %s' % ob)
            print('VIOLATION property=%s replay=%s%s' % (prop, rp['path'], tail))
        return 1
    if undecided:
        for u, st, why in undecided:
            print('UNDECIDED property=%s unit=%s reason=%s: %s' % (prop, u, st, why.replace('\n', ' ')[:300]))
        return 2
    print('OK property=%s obligations=%d discharged=%d functions=%d canaries=%d/%d smt_ms=%d wall_s=%.1f' % (
        prop, len(claimed), len(discharged), len(fns_under_contract), canaries['failed_as_expected'],
        canaries['n'], solver_ms, wall))
    return 0
