#!/usr/bin/env python3
"""devunit.py <unit> [--canary] [--fn NAME] : development aid - generate one unit from /repo, run Verus, print
rendered diagnostics (with the function/clause each one maps to).  Not a registered command."""
import sys, os, json, subprocess, time
HERE = os.path.dirname(os.path.abspath(__file__)); ROOT = os.path.dirname(HERE)
sys.path.insert(0, HERE)
import vcgen, check
unit = sys.argv[1]
U = check.UNITS[unit]
w = os.path.join(ROOT, '.work', '_dev', unit); os.makedirs(w, exist_ok=True)
gen = vcgen.generate(os.path.join(ROOT, 'contracts', U['vc']), canary='--canary' in sys.argv)
p = os.path.join(w, unit + '.rs'); open(p, 'w').write(gen['text'])
extra = list(U.get('verus_args', []))
if '--fn' in sys.argv:
    extra += ['--verify-function', sys.argv[sys.argv.index('--fn') + 1]]
t0 = time.time()
r = check.run_verus(p, w, 'dev', extra)
n = 0
for d in r['diags']:
    cls, kind = check.classify(d)
    if cls == 'ignore':
        continue
    n += 1
    fn = cl = None
    for s in d.get('spans', []):
        f, c = check.locate(gen, s['line_start'])
        fn = fn or f; cl = cl or c
    print('--- [%s/%s] fn=%s clause=%s' % (cls, kind, fn['qual'] if fn else None, cl[3] if cl else None))
    print((d.get('rendered') or d.get('message'))[:int(os.environ.get('DIAGLEN', '1800'))])
js = r['json'] or {}
print('RESULT', js.get('verification-results'), 'smt_ms', js.get('times-ms', {}).get('smt', {}).get('total'), 'wall %.1fs' % (time.time() - t0), 'file', p)
if r['json'] is None:
    print(r['stderr_tail'])
