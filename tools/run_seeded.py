#!/usr/bin/env python3
"""run_seeded.py [filter]: apply each /verif/seeded/*/patch.diff to /repo, run the check of its
property (and every other registered check with --all), undo the patch.  Writes seeded/RESULTS.json."""
import json, os, subprocess, sys, glob
ROOT = '/verif'
flt = [a for a in sys.argv[1:] if not a.startswith('--')]
allc = '--all' in sys.argv
man = json.load(open(os.path.join(ROOT, 'MANIFEST.json')))
props = [c['property_id'] for c in man['checks']]
resf = os.path.join(ROOT, 'seeded', 'RESULTS.json')
results = json.load(open(resf)) if os.path.exists(resf) else {}
assert subprocess.run(['git', '-C', '/repo', 'status', '--porcelain', '--untracked-files=no'], capture_output=True, text=True).stdout.strip() == '', '/repo is dirty'
for d in sorted(glob.glob(os.path.join(ROOT, 'seeded', '*_*'))):
    name = os.path.basename(d)
    if not os.path.isdir(d) or (flt and not any(f in name for f in flt)):
        continue
    meta = json.load(open(os.path.join(d, 'meta.json')))
    prop = meta['property']
    r = subprocess.run(['git', '-C', '/repo', 'apply', os.path.join(d, 'patch.diff')], capture_output=True, text=True)
    if r.returncode != 0:
        print('%s: patch does not apply: %s' % (name, r.stderr.strip()[:200]))
        results[name] = {'error': 'patch does not apply'}
        continue
    try:
        out = {}
        for p in ([prop] if prop in props else []) + ([q for q in props if q != prop] if allc else []):
            c = subprocess.run([os.path.join(ROOT, 'check'), p], capture_output=True, text=True, env=dict(os.environ, VERIF_NO_EVIDENCE='1'))
            viol = [l for l in c.stdout.split('\n') if l.startswith('VIOLATION') or l.startswith('UNDECIDED') or l.startswith('obligation failed')]
            out[p] = {'exit': c.returncode, 'lines': viol[:6]}
        results[name] = {'property': prop, 'claimed': prop in props, 'checks': out, 'summary': meta.get('summary')}
        det = [p for p, v in out.items() if v['exit'] == 1]
        print('%-10s %-4s detected_by=%s %s' % (name, prop, det or '-', '' if prop in props else '(property not claimed)'))
    finally:
        subprocess.run(['git', '-C', '/repo', 'checkout', '--', '.'])
json.dump(results, open(resf, 'w'), indent=1)
