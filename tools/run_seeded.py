#!/usr/bin/env python3
"""run_seeded.py [-jN] [--all] [--in-repo] [filter...]: run the registered checks against each
/verif/seeded/*/patch.diff.

Default: every seed gets its own scratch copy of /repo's working tree under /tmp (tracked files only),
the patch is applied there, the checks run against the copy (VERIF_REPO / VERIF_WORK: extraction, Verus
and the bounded harness all use the copy, with their own cargo target directory seeded from
/verif/.build), and the copy is removed.  /repo is never touched, so seeds run in parallel.
--in-repo: the procedure of the brief (git -C /repo apply; ./check; git -C /repo checkout -- .), serial.
Writes seeded/RESULTS.json (development aid, not evidence)."""
import json, os, subprocess, sys, glob, shutil, tempfile
import concurrent.futures as cf
ROOT = '/verif'
args = sys.argv[1:]
jobs = 4
for a in list(args):
    if a.startswith('-j'):
        jobs = int(a[2:]); args.remove(a)
allc = '--all' in args
inrepo = '--in-repo' in args
flt = [a for a in args if not a.startswith('--')]
man = json.load(open(os.path.join(ROOT, 'MANIFEST.json')))
props = [c['property_id'] for c in man['checks']]
resf = os.path.join(ROOT, 'seeded', 'RESULTS.json')
results = json.load(open(resf)) if os.path.exists(resf) else {}


def checks_for(prop):
    return ([prop] if prop in props else []) + ([q for q in props if q != prop] if allc else [])


def run_checks(name, meta, env):
    prop = meta['property']
    out = {}
    for p in checks_for(prop):
        c = subprocess.run([os.path.join(ROOT, 'check'), p], capture_output=True, text=True, env=env)
        viol = [l for l in c.stdout.split('\n') if l.startswith('VIOLATION') or l.startswith('UNDECIDED') or l.startswith('obligation failed')]
        out[p] = {'exit': c.returncode, 'lines': viol[:6]}
    return {'property': prop, 'claimed': prop in props, 'checks': out, 'summary': meta.get('summary')}


def one_scratch(d):
    name = os.path.basename(d)
    meta = json.load(open(os.path.join(d, 'meta.json')))
    base = tempfile.mkdtemp(prefix='pv-seed-%s-' % name)
    repo = os.path.join(base, 'repo')
    try:
        os.makedirs(repo)
        files = subprocess.run(['git', '-C', '/repo', 'ls-files', '-z'], capture_output=True, text=True).stdout.split('\0')
        for f in files:
            if not f:
                continue
            os.makedirs(os.path.dirname(os.path.join(repo, f)) or repo, exist_ok=True)
            shutil.copy2(os.path.join('/repo', f), os.path.join(repo, f))
        r = subprocess.run(['git', 'apply', '--unsafe-paths', '--directory=' + repo, os.path.join(d, 'patch.diff')],
                           capture_output=True, text=True, cwd=base)
        if r.returncode != 0:
            r = subprocess.run(['patch', '-p1', '-s', '-i', os.path.join(d, 'patch.diff')], capture_output=True, text=True, cwd=repo)
        if r.returncode != 0:
            return name, {'error': 'patch does not apply', 'detail': (r.stderr or r.stdout)[-300:]}
        if os.path.isdir(os.path.join(ROOT, '.build')):
            # warm cargo cache: dependencies are identical, only proto-vulcan and pv-replay are rebuilt
            shutil.copytree(os.path.join(ROOT, '.build'), repo + '.build', symlinks=True)
        env = dict(os.environ, VERIF_NO_EVIDENCE='1', VERIF_REPO=repo, VERIF_WORK=os.path.join(base, 'work'))
        return name, run_checks(name, meta, env)
    finally:
        shutil.rmtree(base, ignore_errors=True)


dirs = [d for d in sorted(glob.glob(os.path.join(ROOT, 'seeded', '*_*')))
        if os.path.isdir(d) and (not flt or any(f in os.path.basename(d) for f in flt))]


def report(name, res):
    results[name] = res
    if 'error' in res:
        print('%-10s %s %s' % (name, res['error'], res.get('detail', '')))
        return
    det = [p for p, v in res['checks'].items() if v['exit'] == 1]
    und = [p for p, v in res['checks'].items() if v['exit'] == 2]
    print('%-10s %-4s detected_by=%s%s %s' % (name, res['property'], det or '-', (' undecided=%s' % und) if und else '',
                                            '' if res['claimed'] else '(property not claimed)'))
    sys.stdout.flush()


if inrepo:
    assert subprocess.run(['git', '-C', '/repo', 'status', '--porcelain', '--untracked-files=no'], capture_output=True, text=True).stdout.strip() == '', '/repo is dirty'
    for d in dirs:
        name = os.path.basename(d)
        meta = json.load(open(os.path.join(d, 'meta.json')))
        r = subprocess.run(['git', '-C', '/repo', 'apply', os.path.join(d, 'patch.diff')], capture_output=True, text=True)
        if r.returncode != 0:
            report(name, {'error': 'patch does not apply', 'detail': r.stderr.strip()[:200]})
            continue
        try:
            report(name, run_checks(name, meta, dict(os.environ, VERIF_NO_EVIDENCE='1')))
        finally:
            subprocess.run(['git', '-C', '/repo', 'checkout', '--', '.'])
else:
    with cf.ThreadPoolExecutor(jobs) as ex:
        for name, res in ex.map(one_scratch, dirs):
            report(name, res)
json.dump(results, open(resf, 'w'), indent=1)
miss = [n for n in sorted(results) if 'checks' in results[n] and results[n]['claimed'] and not any(v['exit'] == 1 for v in results[n]['checks'].values())]
print('seeds: %d, missed (claimed property, no check alarms): %s' % (len(results), miss))
