#!/usr/bin/env python3
"""check <PROPERTY> [--tier quick|thorough] [--replay FILE]

Decides one property by contract-based deductive verification of the code in /repo
(DESIGN.md §3).  Exit 0: every obligation tagged with the property is discharged (or is a listed
known finding).  Exit 1: a `VIOLATION property=<id> replay=<path>` line was printed.  Exit 2:
UNDECIDED (tool limit: lost anchor, construct outside the verifier's subset, rlimit) – never an alarm.
"""
import os
import sys
import json
import time
import re
import subprocess
import hashlib
import concurrent.futures as cf

HERE = os.path.dirname(os.path.abspath(__file__))
ROOT = os.path.dirname(HERE)
sys.path.insert(0, HERE)
import vcgen  # noqa: E402

UNITS = json.load(open(os.path.join(ROOT, 'contracts', 'units.json')))
VERUS = os.environ.get('VERIF_VERUS', 'verus')
import threading
GEN_LOCK = threading.Lock()

VERIF_KINDS = [
    ('postcondition not satisfied', 'postcondition'),
    ('precondition not satisfied', 'precondition'),
    ('invariant not satisfied at end of loop body', 'invariant-end'),
    ('invariant not satisfied before loop', 'invariant-init'),
    ('loop invariant not satisfied', 'invariant'),
    ('assertion failed', 'assertion'),
    ('possible arithmetic underflow/overflow', 'overflow'),
    ('possible division by zero', 'div-by-zero'),
    ('possible bit shift underflow/overflow', 'overflow'),
    ('decreases not satisfied', 'termination'),
    ('could not prove termination', 'termination'),
    ('index out of bounds', 'index'),
    ('unreachable', 'unreachable'),
    ('failed this', 'other-vc'),
]
LIMIT_PATTERNS = ['Resource limit (rlimit) exceeded', 'rlimit', 'timed out', 'does not yet support',
                  'not supported', 'unsupported', 'not yet supported', 'Verus does not']


def run_verus(path, outdir, tag, extra=(), _retry=True):
    t0 = time.time()
    cmd = [VERUS, os.path.basename(path), '--output-json', '--time', '--multiple-errors', '400',
           '--error-format=json'] + list(extra)
    env = dict(os.environ)
    p = subprocess.run(cmd, cwd=outdir, capture_output=True, text=True, env=env)
    dt = time.time() - t0
    open(os.path.join(outdir, tag + '.stdout.json'), 'w').write(p.stdout)
    open(os.path.join(outdir, tag + '.stderr.txt'), 'w').write(p.stderr)
    try:
        js = json.loads(p.stdout)
    except Exception:
        js = None
    diags = []
    garbled = 0
    for line in p.stderr.split('\n'):
        line = line.strip()
        if not line.startswith('{'):
            if '"$message_type"' in line:
                garbled += 1
            continue
        try:
            d = json.loads(line)
        except Exception:
            garbled += 1
            continue
        if d.get('$message_type') == 'diagnostic':
            diags.append(d)
    if (garbled or js is None) and _retry:
        # diagnostics of Verus' worker threads interleaved on stderr (or the run was cut short): once more, single-threaded
        return run_verus(path, outdir, tag, list(extra) + ['--num-threads', '1'], _retry=False)
    return {'cmd': ' '.join(cmd), 'rc': p.returncode, 'json': js, 'diags': diags, 'wall_s': dt,
            'stderr_tail': p.stderr[-2000:], 'garbled': garbled, 'stderr': p.stderr}


def classify(d):
    """-> ('verif', kind) | ('limit', why) | ('compile', msg) | ('ignore', '')"""
    msg = d.get('message', '')
    lvl = d.get('level')
    if lvl in ('warning', 'note', 'help'):
        # rlimit is reported as an error; notes may carry "took a long time"
        return ('ignore', '')
    if msg.startswith('aborting due to'):
        return ('ignore', '')
    for pat in LIMIT_PATTERNS:
        if pat in msg:
            return ('limit', msg)
    for pat, kind in VERIF_KINDS:
        if pat in msg:
            return ('verif', kind)
    if d.get('code'):
        return ('compile', msg)
    # label of primary span sometimes carries the kind
    for sp in d.get('spans', []):
        lab = sp.get('label') or ''
        for pat, kind in VERIF_KINDS:
            if pat in lab:
                return ('verif', kind)
    return ('compile', msg)


def build_unit(unit, workdir):
    """generate + verify one unit. Returns a result dict."""
    os.makedirs(workdir, exist_ok=True)
    vc = os.path.join(ROOT, 'contracts', UNITS[unit]['vc'])
    res = {'unit': unit, 'status': 'ok', 'failures': [], 'limits': []}
    try:
        # the extractor keeps per-run state in module globals (rule flags, file cache): units are generated one at a
        # time even though they are verified in parallel (a race here once produced a unit without its 'static bounds)
        with GEN_LOCK:
            gen = vcgen.generate(vc, canary=False)
            gen_c = vcgen.generate(vc, canary=True)
    except vcgen.AnchorLost as e:
        res['status'] = 'anchor-lost'
        res['reason'] = str(e)
        return res
    except Exception as e:  # lexer trouble on an edited tree is a tool limit, too
        res['status'] = 'anchor-lost'
        res['reason'] = 'extractor: %r' % (e,)
        return res
    main_rs = os.path.join(workdir, unit + '.rs')
    can_rs = os.path.join(workdir, unit + '_canary.rs')
    open(main_rs, 'w').write(gen['text'])
    open(can_rs, 'w').write(gen_c['text'])
    res['gen'] = gen
    res['main_rs'] = main_rs
    with cf.ThreadPoolExecutor(2) as ex:
        f1 = ex.submit(run_verus, main_rs, workdir, 'main', UNITS[unit].get('verus_args', []))
        f2 = ex.submit(run_verus, can_rs, workdir, 'canary', UNITS[unit].get('verus_args', []))
        r1, r2 = f1.result(), f2.result()
    res['verus'] = r1
    res['canary'] = r2
    analyse(res, gen, r1)
    strip_failed_hints(res, gen, unit, workdir)
    analyse_canary(res, gen_c, r2)
    if res['status'] == 'vacuous':
        # a canary that seems to verify is far more often a lost diagnostic than a contradiction: confirm it
        # with a second, single-threaded run before reporting
        r2 = run_verus(can_rs, workdir, 'canary', list(UNITS[unit].get('verus_args', [])) + ['--num-threads', '1'], _retry=False)
        res['canary'] = r2
        res['status'] = 'ok'
        res.pop('reason', None)
        analyse_canary(res, gen_c, r2)
    return res


def strip_failed_hints(res, gen, unit, workdir):
    """Verus *assumes* an assertion after reporting it, so a failing ghost hint block (scaffolding of the proof, not an
    obligation derived from a property) can hide the failure of the contract clauses that come after it.  Re-verify
    with the failing hint blocks blanked out (line numbers kept) until no hint fails: what fails then are contract
    clauses, loop invariants and safety obligations, each tagged with the properties it carries.  A hint that turns
    out not to be needed is dropped from the failures; one that cannot be removed (it declares ghost state used
    elsewhere) stays and is decided like any other failed obligation."""
    if res['status'] != 'ok':
        return
    text_lines = gen['text'].split('\n')
    removed = []
    for rnd in range(4):
        hints = [e for e in res['failures'] if e.get('clause_kind') == 'hint' and not e.get('hint_status')]
        if not hints:
            break
        cids = {(e.get('clause_owner') or e.get('fn'), e['clause']) for e in hints}
        for c in gen['linemap']:
            if c[4] == 'hint' and (c[2], c[3]) in cids:
                for ln in range(c[0], (c[1] or c[0]) + 1):
                    if 1 <= ln <= len(text_lines) and not text_lines[ln - 1].lstrip().startswith('//'):
                        text_lines[ln - 1] = ''
                removed.append(c[3])
        alt_rs = os.path.join(workdir, unit + '_nohint%d.rs' % rnd)
        open(alt_rs, 'w').write('\n'.join(text_lines))
        r = run_verus(alt_rs, workdir, 'nohint%d' % rnd, UNITS[unit].get('verus_args', []))
        res2 = {'unit': unit, 'status': 'ok', 'failures': [], 'limits': []}
        analyse(res2, gen, r)
        if res2['status'] != 'ok':
            for e in hints:
                e['hint_status'] = 'unremovable'
            break
        for e in hints:
            e['hint_status'] = 'removed'
        # the verdict without the hint replaces the one that was conditional on it
        res['failures'] = [e for e in res['failures'] if e.get('hint_status')] + res2['failures']
        res['limits'] = res2['limits']
        res['errors'] = res2.get('errors', res.get('errors'))
    res['hints_removed'] = removed


def locate(gen, line):
    """-> (fn_info or None, clause or None)"""
    fn = None
    for f in gen['fns']:
        a, b = f['gen_lines']
        if a <= line <= b:
            fn = f
            break
    cl = None
    for c in gen['linemap']:
        if c[0] <= line <= (c[1] or c[0]):
            cl = c
            break
    return fn, cl


def analyse(res, gen, r):
    if r['json'] is None:
        res['status'] = 'verus-crashed'
        res['reason'] = r['stderr_tail']
        return
    vr = r['json'].get('verification-results', {})
    res['verified'] = vr.get('verified', 0)
    res['errors'] = vr.get('errors', 0)
    # per-function smt stats
    stats = {}
    try:
        for m in r['json']['times-ms']['smt']['smt-run-module-times']:
            for fb in m.get('function-breakdown', []):
                stats[fb['function']] = fb
    except Exception:
        pass
    res['fn_stats'] = stats
    res['smt_ms'] = r['json'].get('times-ms', {}).get('smt', {}).get('total')
    compile_errors = []
    for d in r['diags']:
        cls, kind = classify(d)
        if cls == 'ignore':
            continue
        spans = d.get('spans', [])
        prim = [s for s in spans if s.get('is_primary')] or spans
        entry = {'message': d.get('message'), 'kind': kind, 'rendered': d.get('rendered', ''),
                 'fn': None, 'clause': None, 'tags': [], 'where': None}
        # attribute
        fn = None
        clause = None
        for s in prim + [s for s in spans if s not in prim]:
            f, c = locate(gen, s['line_start'])
            if f and fn is None:
                fn = f
            if c and clause is None:
                clause = c
        if prim:
            entry['where'] = 'line %d' % prim[0]['line_start']
        if fn:
            entry['fn'] = fn['qual']
            entry['src_line'] = fn.get('src_line')
        if clause:
            entry['clause'] = clause[3]
            entry['clause_owner'] = clause[2]
            entry['clause_kind'] = clause[4]
        tags = []
        if clause and clause[5]:
            tags = clause[5]
        elif fn:
            tags = fn['tags']
        entry['tags'] = tags
        if cls == 'verif':
            if fn is None and clause is None:
                entry['in_prelude'] = True
            res['failures'].append(entry)
        elif cls == 'limit':
            res['limits'].append(entry)
        else:
            compile_errors.append(entry)
    nfail_fns = len({e['fn'] for e in res['failures'] if e.get('fn')} | {e['fn'] for e in res['limits'] if e.get('fn')})
    if not compile_errors and res['errors'] > nfail_fns + sum(1 for e in res['failures'] if not e.get('fn')) and r.get('garbled'):
        res['status'] = 'verus-crashed'
        res['reason'] = 'verus reports %d failing functions but only %d could be read from its (interleaved) diagnostics' % (res['errors'], nfail_fns)
    if compile_errors:
        res['status'] = 'compile-error'
        res['reason'] = compile_errors[0]['message']
        res['compile_errors'] = compile_errors
    elif res['errors'] and not res['failures'] and not res['limits']:
        res['status'] = 'verus-crashed'
        res['reason'] = 'verus reports %d errors but no diagnostic could be parsed' % res['errors']


def analyse_canary(res, gen_c, r):
    """every canary (assert(false) at the start of a contracted body) must FAIL"""
    want = [f for f in gen_c['fns'] if f['canary']]
    res['canaries'] = {'n': len(want), 'failed_as_expected': 0, 'vacuous': []}
    if res['status'] != 'ok':
        return
    if r['json'] is None:
        res['status'] = 'verus-crashed'
        res['reason'] = 'canary run: ' + r['stderr_tail']
        return
    text_lines = gen_c['text'].split('\n')
    hit = set()
    # robust against diagnostics whose JSON lines were interleaved with other output (observed under load: the first
    # diagnostics of a run collide with rustc's own warnings): any span that starts on a canary line counts
    for m_ in re.finditer(r'"line_start":(\d+)', r.get('stderr') or ''):
        ln = int(m_.group(1))
        if 0 < ln <= len(text_lines) and '/*canary*/' in text_lines[ln - 1]:
            f, _ = locate(gen_c, ln)
            if f:
                hit.add(f['qual'])
    for d in r['diags']:
        if 'assertion failed' not in d.get('message', ''):
            continue
        for s in d.get('spans', []):
            ln = s['line_start']
            if '/*canary*/' in text_lines[ln - 1]:
                f, _ = locate(gen_c, ln)
                if f:
                    hit.add(f['qual'])
    for f in want:
        if f['qual'] in hit:
            res['canaries']['failed_as_expected'] += 1
        else:
            res['canaries']['vacuous'].append(f['qual'])
    if res['canaries']['vacuous']:
        res['status'] = 'vacuous'
        res['reason'] = 'canary assert(false) verified in: ' + ', '.join(res['canaries']['vacuous'])


ASSUME_PATTERNS = [
    (r'#\[verifier::external_body\]', 'external_body'),
    (r'\bassume_specification\b', 'assume_specification'),
    (r'\buninterp\s+spec\s+fn\b', 'uninterpreted spec fn'),
    (r'\badmit\s*\(', 'admit'),
    (r'\bassume\s*\(', 'assume'),
    (r'#\[verifier::external\b', 'external'),
    (r'\baxiom\b', 'axiom'),
    (r'exec_allows_no_decreases_clause', 'termination not verified'),
]


def scan_assumptions(text):
    out = []
    lines = text.split('\n')
    for i, l in enumerate(lines):
        if '/*canary*/' in l:
            continue
        code = l.split('//')[0]
        for pat, name in ASSUME_PATTERNS:
            if re.search(pat, code):
                # describe by the next non-attribute line
                j = i
                while j + 1 < len(lines) and (lines[j].strip().startswith('#[') or not lines[j].strip()):
                    j += 1
                desc = lines[j].strip() if j != i else l.strip()
                out.append('%s: %s' % (name, desc[:140]))
    return out


def main():
    args = sys.argv[1:]
    if not args:
        print(__doc__)
        return 2
    prop = args[0]
    tier = os.environ.get('VERIF_TIER', 'quick')
    replay = None
    i = 1
    while i < len(args):
        if args[i] == '--tier':
            tier = args[i + 1]
            i += 2
        elif args[i] == '--replay':
            replay = args[i + 1]
            i += 2
        else:
            i += 1
    seed = int(os.environ.get('VERIF_SEED', '0') or 0)
    import decide
    return decide.run(prop, tier, seed, replay, UNITS, build_unit, run_verus, scan_assumptions)


if __name__ == '__main__':
    sys.exit(main())
