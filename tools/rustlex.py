"""A small Rust lexer + item finder, enough to cut functions, impl blocks and type
definitions out of proto-vulcan's sources mechanically (DESIGN §3.1).

Tokens are (kind, text, start, end) with byte offsets into the (str) source.
kinds: ident, lifetime, num, str, char, punct, comment
"""
import re
import hashlib

PUNCT3 = ['<<=', '>>=', '...', '..=']
PUNCT2 = ['::', '->', '=>', '==', '!=', '<=', '>=', '&&', '||', '+=', '-=', '*=', '/=',
          '%=', '^=', '&=', '|=', '<<', '..']
# NOTE: '>>' is deliberately NOT a token: generics close with single '>'.

IDENT_RE = re.compile(r'[A-Za-z_][A-Za-z0-9_]*')
NUM_RE = re.compile(r'[0-9][0-9A-Za-z_]*(\.[0-9][0-9A-Za-z_]*)?')


class LexError(Exception):
    pass


def lex(src):
    toks = []
    i = 0
    n = len(src)
    while i < n:
        c = src[i]
        if c in ' \t\r\n':
            i += 1
            continue
        if src.startswith('//', i):
            j = src.find('\n', i)
            if j < 0:
                j = n
            toks.append(('comment', src[i:j], i, j))
            i = j
            continue
        if src.startswith('/*', i):
            depth = 1
            j = i + 2
            while j < n and depth > 0:
                if src.startswith('/*', j):
                    depth += 1
                    j += 2
                elif src.startswith('*/', j):
                    depth -= 1
                    j += 2
                else:
                    j += 1
            toks.append(('comment', src[i:j], i, j))
            i = j
            continue
        # raw strings / byte strings
        m = re.match(r'(b?r)(#*)"', src[i:i + 40])
        if m:
            hashes = m.group(2)
            end = src.find('"' + hashes, i + len(m.group(0)))
            if end < 0:
                raise LexError('unterminated raw string at %d' % i)
            j = end + 1 + len(hashes)
            toks.append(('str', src[i:j], i, j))
            i = j
            continue
        if c == '"' or (c == 'b' and i + 1 < n and src[i + 1] == '"'):
            j = i + (2 if c == 'b' else 1)
            while j < n and src[j] != '"':
                if src[j] == '\\':
                    j += 1
                j += 1
            j += 1
            toks.append(('str', src[i:j], i, j))
            i = j
            continue
        if c == "'":
            # char literal or lifetime
            m = re.match(r"'(\\.[^']*|[^'\\])'", src[i:i + 12])
            if m:
                j = i + len(m.group(0))
                toks.append(('char', src[i:j], i, j))
                i = j
                continue
            m = IDENT_RE.match(src, i + 1)
            if m:
                j = m.end()
                toks.append(('lifetime', src[i:j], i, j))
                i = j
                continue
            raise LexError('bad quote at %d' % i)
        m = IDENT_RE.match(src, i)
        if m:
            j = m.end()
            toks.append(('ident', src[i:j], i, j))
            i = j
            continue
        if c.isdigit():
            m = NUM_RE.match(src, i)
            j = m.end()
            # don't swallow a range operator: "0..3"
            txt = src[i:j]
            if '.' in txt and src[i:j].endswith('.'):
                j -= 1
            # "1..=3": NUM_RE will not match '..' since second part needs digit after '.'
            toks.append(('num', src[i:j], i, j))
            i = j
            continue
        for p in PUNCT3:
            if src.startswith(p, i):
                toks.append(('punct', p, i, i + 3))
                i += 3
                break
        else:
            for p in PUNCT2:
                if src.startswith(p, i):
                    toks.append(('punct', p, i, i + 2))
                    i += 2
                    break
            else:
                toks.append(('punct', c, i, i + 1))
                i += 1
    return toks


def code_tokens(toks):
    return [t for t in toks if t[0] != 'comment']


def tok_hash(toks):
    h = hashlib.sha256()
    for t in toks:
        if t[0] == 'comment':
            continue
        h.update(t[1].encode())
        h.update(b'\0')
    return h.hexdigest()[:16]


OPEN = {'(': ')', '[': ']', '{': '}'}
CLOSE = {')': '(', ']': '[', '}': '{'}


def match_close(toks, i):
    """toks[i] is an opening bracket; return index of its matching close."""
    assert toks[i][1] in OPEN, toks[i]
    depth = 0
    j = i
    while j < len(toks):
        t = toks[j]
        if t[0] == 'punct':
            if t[1] in OPEN:
                depth += 1
            elif t[1] in CLOSE:
                depth -= 1
                if depth == 0:
                    return j
        j += 1
    raise LexError('unbalanced bracket from token %d (%r)' % (i, toks[i]))


def skip_angle(toks, i):
    """toks[i] is '<' opening a generic list; return index just after its matching '>'."""
    assert toks[i][1] == '<'
    depth = 0
    j = i
    while j < len(toks):
        t = toks[j]
        if t[0] == 'punct':
            if t[1] == '<':
                depth += 1
            elif t[1] == '>':
                depth -= 1
                if depth == 0:
                    return j + 1
            elif t[1] in OPEN:
                j = match_close(toks, j)
        j += 1
    raise LexError('unbalanced <')


ITEM_KW = {'fn', 'struct', 'enum', 'impl', 'trait', 'mod', 'use', 'type', 'const', 'static',
           'macro_rules', 'extern', 'union'}


class Item:
    def __init__(self):
        self.kind = None      # fn/struct/enum/impl/trait/...
        self.name = None
        self.toks = None      # the code-token list this item indexes into
        self.a = 0            # first token (attributes included)
        self.kw = 0           # index of the keyword token
        self.body_open = None  # index of '{' (or None)
        self.b = 0            # last token (inclusive)
        self.attrs = []       # [(a,b)] token ranges of outer attributes

    def text(self, src):
        return src[self.toks[self.a][2]:self.toks[self.b][3]]


def parse_items(toks, lo, hi):
    """Parse the items in code-token range [lo, hi). Returns list of Item."""
    items = []
    i = lo
    while i < hi:
        it = Item()
        it.toks = toks
        it.a = i
        # attributes
        while i < hi and toks[i][1] == '#':
            j = i + 1
            if toks[j][1] == '!':
                j += 1
            assert toks[j][1] == '[', toks[j]
            e = match_close(toks, j)
            it.attrs.append((i, e))
            i = e + 1
        if i >= hi:
            break
        # modifiers
        while i < hi:
            t = toks[i]
            if t[1] == 'pub':
                i += 1
                if i < hi and toks[i][1] == '(':
                    i = match_close(toks, i) + 1
                continue
            if t[1] in ('unsafe', 'async', 'default'):
                i += 1
                continue
            if t[1] == 'const' and toks[i + 1][1] == 'fn':
                i += 1
                continue
            if t[1] == 'extern' and toks[i + 1][0] == 'str':
                i += 2
                continue
            break
        if i >= hi:
            break
        t = toks[i]
        it.kw = i
        if t[1] in ITEM_KW:
            it.kind = t[1]
        elif t[0] == 'ident' and toks[i + 1][1] == '!':
            it.kind = 'macro'
        else:
            raise LexError('cannot parse item at token %r (offset %d)' % (t, t[2]))
        # name
        if it.kind in ('fn', 'struct', 'enum', 'trait', 'mod', 'type', 'const', 'static', 'union'):
            it.name = toks[i + 1][1]
        # find end
        j = i + 1
        end = None
        while j < hi:
            tt = toks[j]
            if tt[0] == 'punct':
                if tt[1] == '{' and it.kind in ('use', 'const', 'static', 'type'):
                    j = match_close(toks, j) + 1
                    continue
                if tt[1] == '{':
                    it.body_open = j
                    end = match_close(toks, j)
                    # "struct X {..}" / fn / impl end at '}' ; macro invocations with {} too
                    break
                if tt[1] in ('(', '['):
                    j = match_close(toks, j) + 1
                    continue
                if tt[1] == ';':
                    end = j
                    break
            j += 1
        if end is None:
            raise LexError('item without end at %r' % (t,))
        # macro invocation "foo! {...}" may be followed by ';'
        it.b = end
        items.append(it)
        i = end + 1
        if it.kind == 'macro' and i < hi and toks[i][1] == ';':
            i += 1
    return items


def header_norm(toks, a, b, keep_generics=False):
    """Normalised text of an impl/trait header: tokens [a,b) without the leading
    impl<...> generics, without where clause; generic argument lists dropped unless
    keep_generics."""
    out = []
    i = a
    first = True
    while i < b:
        t = toks[i]
        if t[1] == 'where':
            break
        if t[1] == '<':
            j = skip_angle(toks, i)
            if keep_generics and not (first and out == ['impl']):
                out.append(''.join(x[1] for x in toks[i:j]))
            i = j
            first = False
            continue
        out.append(t[1])
        if len(out) > 1:
            first = False
        i += 1
    s = ' '.join(out)
    s = s.replace(' <', '<')
    return s
