#!/usr/bin/env python3
"""seed_prompt.py <PID> <worktree> [n]: print the prompt given to an independent sub-agent (property text only, nothing from /verif)"""
import json, sys
pid, wt = sys.argv[1], sys.argv[2]
n = int(sys.argv[3]) if len(sys.argv) > 3 else 3
p = [json.loads(l) for l in open('/verif/properties.jsonl') if json.loads(l)['id'] == pid][0]
files = ', '.join(p.get('anchors', {}).get('files', []))
print(f'''You are helping test a verification effort on the Rust crate proto-vulcan (a miniKanren-style relational logic language embedded in Rust). You have your own scratch git worktree of the repository at {wt} (work ONLY there; never touch /repo or /verif; there is no network, use `cargo test --offline`).

The property under test:

  title: {p.get('title')}
  statement: {p.get('statement')}
  scope: {(p.get('quantifier') or {}).get('text', '')}

Your task: produce {n} DIFFERENT small source changes ("seeded defects") to the crate in {wt} (src/ or macros/), each of which BREAKS this property while the crate still compiles and the existing test suite still passes entirely (`cd {wt} && cargo test --workspace --offline 2>&1 | grep 'test result'` must show 0 failed for every target, including doc tests). Prefer changes that need something specific to manifest — an unusual input, a particular multi-step sequence of operations, a boundary value, or two cooperating sites that each look fine alone — NOT changes that ordinary use would expose at once. Realistic slips a maintainer could make (off-by-one, swapped arguments, wrong branch order, dropped case, stale value, missing re-check, an "optimisation" that skips work in a case where it is still needed) are ideal. Each change should be a few lines. Spread the changes over different functions/files where you can.

For each change i = 1..{n}:
  1. start from a clean tree (`git -C {wt} checkout -- . && git -C {wt} clean -fdq -e target -e 'seed_*'`),
  2. make the change, run the full test suite and confirm it passes,
  3. write a demonstration: a small Rust integration test file that FAILS with the change and PASSES without it (put it at {wt}/tests/seed_{pid}_<i>.rs; it must use only the crate's public API, e.g. `use proto_vulcan::prelude::*;` and the `proto_vulcan_query!` macro, or public functions/types). Run it both ways (`cargo test --offline --test seed_{pid}_<i>`) and confirm: fails with the change, passes on the clean tree.
  4. save the change as a patch that does NOT include the demonstration test: `git -C {wt} diff -- src macros > {wt}/seed_{pid}_<i>.patch`, and copy the demonstration to {wt}/seed_{pid}_<i>_demo.rs,
  5. write {wt}/seed_{pid}_<i>.json with fields: property ("{pid}"), summary (one sentence: what was changed), needs (what specific input/sequence is needed for it to manifest), files (list of changed files), verified (the exact commands you ran and their outcomes).
Leave the tree clean at the end (the patches, demo copies and json files stay as untracked files in {wt}; remove tests/seed_* from the tree). Do not stop until you have {n} verified changes or have convincingly exhausted the options. In your final message list the patch files and one line each on what they do. Relevant files to start reading: {files}.''')
