#!/usr/bin/env python3
"""import_seeds.py <worktree> <pid>: copy confirmed seeds from a sub-agent's worktree to /verif/seeded/"""
import json, os, shutil, sys, glob
wt, pid = sys.argv[1], sys.argv[2]
for pf in sorted(glob.glob(os.path.join(wt, 'seed_%s_*.patch' % pid))):
    i = os.path.basename(pf)[len('seed_%s_' % pid):-len('.patch')]
    d = "/verif/seeded/%s%s_%s" % (pid, os.environ.get("SEED_SUFFIX", ""), i)
    os.makedirs(d, exist_ok=True)
    shutil.copy(pf, os.path.join(d, 'patch.diff'))
    shutil.copy(os.path.join(wt, 'seed_%s_%s_demo.rs' % (pid, i)), os.path.join(d, 'demo.rs'))
    try:
        meta = json.load(open(os.path.join(wt, 'seed_%s_%s.json' % (pid, i))))
    except Exception as e:
        meta = {'property': pid, 'summary': 'see patch', 'needs': '?', 'agent_json_error': str(e)}
    meta = {'property': meta.get('property', pid), 'summary': meta.get('summary'), 'needs': meta.get('needs'),
            'files': meta.get('files'), 'agent_verified': meta.get('verified'),
            'confirmed_by_me': 'tools/confirm_seed.sh %s %s %s: demo passes on the clean tree, fails with the patch; the full existing suite (185 unit + 22 doc tests) passes with the patch' % (wt, pid, i),
            'origin': 'independent sub-agent given only the property text and its own scratch worktree'}
    json.dump(meta, open(os.path.join(d, 'meta.json'), 'w'), indent=1)
    print('imported', d)
