#!/usr/bin/env python3
"""selftest: apply each mutation of selftest/mutants.json to a scratch copy of /repo/src (outside
/repo and /verif), run the named checks against the copy (VERIF_REPO), compare exit codes, delete
the copy.  Not a registered command; used while developing the contracts.
usage: tools/selftest.py [name-substring]"""
import json, os, shutil, subprocess, sys, tempfile
ROOT = os.path.dirname(os.path.dirname(os.path.abspath(__file__)))
muts = json.load(open(os.path.join(ROOT, 'selftest', 'mutants.json')))
flt = sys.argv[1] if len(sys.argv) > 1 else ''
bad = 0
for m in muts:
    if flt not in m['name']:
        continue
    d = tempfile.mkdtemp(prefix='pv-selftest-')
    try:
        shutil.copytree('/repo/src', os.path.join(d, 'src'))
        for ed in m['edits']:
            p = os.path.join(d, ed['file'])
            s = open(p).read()
            if s.count(ed['old']) != 1:
                print('!! %s: pattern occurs %d times in %s' % (m['name'], s.count(ed['old']), ed['file']))
                bad += 1
                continue
            open(p, 'w').write(s.replace(ed['old'], ed['new']))
        for prop, want in m['expect'].items():
            env = dict(os.environ, VERIF_REPO=d, VERIF_NO_EVIDENCE='1')
            r = subprocess.run([os.path.join(ROOT, 'check'), prop], capture_output=True, text=True, env=env)
            ok = (r.returncode in want) if isinstance(want, list) else r.returncode == want
            print('%s %-40s %s -> exit %d (want %s)' % ('ok ' if ok else 'BAD', m['name'], prop, r.returncode, want))
            if not ok:
                bad += 1
                print('   ' + '\n   '.join(r.stdout.strip().split('\n')[-4:]))
    finally:
        shutil.rmtree(d)
print('selftest: %d mismatches' % bad)
sys.exit(1 if bad else 0)
