use vstd::prelude::*;
use std::ops::RangeInclusive;
use std::borrow::Borrow;
verus! {

// ---------- assumed std contracts ----------
pub uninterp spec fn ri_start<Idx>(r: RangeInclusive<Idx>) -> Idx;
pub uninterp spec fn ri_end<Idx>(r: RangeInclusive<Idx>) -> Idx;
pub assume_specification<Idx> [std::ops::RangeInclusive::<Idx>::start] (r: &RangeInclusive<Idx>) -> (s: &Idx)
    ensures *s == ri_start(*r);
pub assume_specification<Idx> [std::ops::RangeInclusive::<Idx>::end] (r: &RangeInclusive<Idx>) -> (s: &Idx)
    ensures *s == ri_end(*r);
pub assume_specification [isize::saturating_add] (a: isize, b: isize) -> (r: isize)
    ensures r == if a + b > isize::MAX { isize::MAX as int } else if a + b < isize::MIN { isize::MIN as int } else { a + b };

#[derive(Debug, Clone)]
pub enum FiniteDomain {
    Interval(RangeInclusive<isize>),
    Sparse(Vec<isize>),
}

pub open spec fn strictly_sorted(s: Seq<isize>) -> bool {
    forall|i: int, j: int| 0 <= i < j < s.len() ==> s[i] < s[j]
}

pub open spec fn range_seq(lo: int, hi: int) -> Seq<isize>
    decreases hi - lo + 1
{
    if hi < lo { Seq::empty() } else { seq![lo as isize] + range_seq(lo + 1, hi) }
}

impl FiniteDomain {
    pub open spec fn wf(&self) -> bool {
        match self {
            FiniteDomain::Interval(r) => ri_start(*r) <= ri_end(*r),
            FiniteDomain::Sparse(v) => v@.len() > 0 && strictly_sorted(v@),
        }
    }
    pub open spec fn elems(&self) -> Seq<isize> {
        match self {
            FiniteDomain::Interval(r) => range_seq(ri_start(*r) as int, ri_end(*r) as int),
            FiniteDomain::Sparse(v) => v@,
        }
    }
    pub open spec fn has(&self, x: int) -> bool {
        match self {
            FiniteDomain::Interval(r) => ri_start(*r) <= x <= ri_end(*r),
            FiniteDomain::Sparse(v) => exists|i: int| 0 <= i < v@.len() && v@[i] == x,
        }
    }

    pub fn is_singleton(&self) -> (b: bool)
        requires self.wf()
        ensures b == (exists|x: int| self.has(x) && forall|y: int| self.has(y) ==> y == x)
    {
        match self {
            FiniteDomain::Interval(r) => (r.end() - r.start()).saturating_add(1) == 1,
            FiniteDomain::Sparse(v) => v.len() == 1,
        }
    }
}
}
fn main(){}
