use vstd::prelude::*;
use std::marker::PhantomData;
use std::rc::Rc;
verus! {
pub trait User: 'static + Sized {
    fn with_constraint<E: Engine<Self>>(state: &mut State<Self, E>, constraint: &Rc<dyn Constraint<Self, E>>)
        ensures final(state).hooks() == old(state).hooks() + 1, final(state).cstore() == old(state).cstore();
}
pub trait Engine<U>: Sized + 'static {}

pub trait Constraint<U, E> {
    fn operands_len(&self) -> usize;
}

#[verifier::external_body]
#[verifier::accept_recursive_types(U)]
#[verifier::accept_recursive_types(E)]
pub struct State<U, E> { _p: PhantomData<(U,E)> }

#[verifier::external_body]
#[verifier::accept_recursive_types(U)]
#[verifier::accept_recursive_types(E)]
pub struct ConstraintStore<U, E> { _p: PhantomData<(U,E)> }

impl<U, E> ConstraintStore<U, E> {
    pub uninterp spec fn len(&self) -> int;
    #[verifier::external_body]
    pub fn push_and_normalize(&mut self, newc: Rc<dyn Constraint<U, E>>)
        ensures final(self).len() == old(self).len() + 1
    { unimplemented!() }
}

impl<U, E> State<U, E> {
    pub uninterp spec fn hooks(&self) -> int;
    pub uninterp spec fn cstore(&self) -> ConstraintStore<U,E>;
    pub uninterp spec fn with_cstore_spec(self, c: ConstraintStore<U,E>) -> State<U,E>;
    #[verifier::external_body]
    pub fn cstore_to_mut(&mut self) -> (r: &mut ConstraintStore<U, E>)
        ensures *r == old(self).cstore(), final(self).cstore() == *final(r), final(self).hooks() == old(self).hooks()
    { unimplemented!() }
}

impl<U, E> State<U, E>
where
    U: User,
    E: Engine<U>,
{
    pub fn with_constraint(self, constraint: Rc<dyn Constraint<U, E>>) -> (r: State<U, E>)
        requires self.hooks() == self.cstore().len()
        ensures r.hooks() == r.cstore().len()
    {
        let mut self_ = self;
        U::with_constraint(&mut self_, &constraint);
        self_.cstore_to_mut().push_and_normalize(constraint);
        self_
    }
}
}
fn main(){}
