use vstd::prelude::*;
use std::ops::RangeInclusive;
verus! {

pub enum FiniteDomain {
    Interval(RangeInclusive<isize>),
    Sparse(Vec<isize>),
}

#[verifier::external_body]
pub struct FiniteDomainIter<'a> { _p: core::marker::PhantomData<&'a ()> }

pub uninterp spec fn interval_seq(r: RangeInclusive<isize>) -> Seq<isize>;
pub uninterp spec fn fdi_rem(it: FiniteDomainIter) -> Seq<isize>;

pub open spec fn strictly_sorted(s: Seq<isize>) -> bool {
    forall|i: int, j: int| 0 <= i < j < s.len() ==> s[i] < s[j]
}

// number of elements of `all` already decided (everything before the element held in `m`)
pub open spec fn done(m: Option<isize>, it: FiniteDomainIter, all: Seq<isize>) -> int {
    all.len() - fdi_rem(it).len() - (if m.is_some() { 1int } else { 0int })
}

// iterator + lookahead are positioned consistently inside `all`
pub open spec fn cursor_ok(m: Option<isize>, it: FiniteDomainIter, all: Seq<isize>) -> bool {
    &&& 0 <= done(m, it, all)
    &&& fdi_rem(it).len() <= all.len()
    &&& fdi_rem(it) =~= all.subrange(all.len() - fdi_rem(it).len(), all.len() as int)
    &&& (m matches Some(x) ==> x == all[done(m, it, all)])
    &&& (m is None ==> fdi_rem(it).len() == 0)
}

// a minus b, keeping order (defined from the right so that it is push-friendly)
pub open spec fn minus(a: Seq<isize>, b: Seq<isize>) -> Seq<isize>
    decreases a.len()
{
    if a.len() == 0 { Seq::empty() }
    else if b.contains(a.last()) { minus(a.drop_last(), b) }
    else { minus(a.drop_last(), b).push(a.last()) }
}

pub proof fn lemma_minus_contains(a: Seq<isize>, b: Seq<isize>)
    ensures forall|x: isize| #[trigger] minus(a, b).contains(x) <==> (a.contains(x) && !b.contains(x))
    decreases a.len()
{
    if a.len() > 0 {
        lemma_minus_contains(a.drop_last(), b);
        let r = minus(a.drop_last(), b);
        assert forall|x: isize| #[trigger] minus(a, b).contains(x) <==> (a.contains(x) && !b.contains(x)) by {
            if a.contains(x) {
                let k = choose|k: int| 0 <= k < a.len() && a[k] == x;
                if k < a.len() - 1 { assert(a.drop_last()[k] == x); }
            }
            if a.drop_last().contains(x) {
                let k = choose|k: int| 0 <= k < a.drop_last().len() && a.drop_last()[k] == x;
                assert(a[k] == x);
            }
            if !b.contains(a.last()) {
                assert(r.push(a.last()).last() == a.last());
                if r.push(a.last()).contains(x) {
                    let k = choose|k: int| 0 <= k < r.push(a.last()).len() && r.push(a.last())[k] == x;
                    if k < r.len() { assert(r[k] == x); }
                }
                if r.contains(x) {
                    let k = choose|k: int| 0 <= k < r.len() && r[k] == x;
                    assert(r.push(a.last())[k] == x);
                }
                assert(r.push(a.last())[r.len() as int] == a.last());
            }
            assert(a[a.len() - 1] == a.last());
        }
    }
}

pub proof fn lemma_minus_sorted(a: Seq<isize>, b: Seq<isize>)
    requires strictly_sorted(a)
    ensures strictly_sorted(minus(a, b)),
            forall|t: int| 0 <= t < minus(a, b).len() ==> a.contains(#[trigger] minus(a, b)[t]),
    decreases a.len()
{
    if a.len() > 0 {
        lemma_minus_sorted(a.drop_last(), b);
        let r = minus(a.drop_last(), b);
        assert forall|t: int| 0 <= t < r.len() implies r[t] < a.last() by {
            let x = r[t];
            assert(a.drop_last().contains(x));
            let k = choose|k: int| 0 <= k < a.drop_last().len() && a.drop_last()[k] == x;
            assert(a[k] == x);
        }
        assert forall|t: int| 0 <= t < minus(a, b).len() implies a.contains(#[trigger] minus(a, b)[t]) by {
            if t < r.len() {
                let x = r[t];
                let k = choose|k: int| 0 <= k < a.drop_last().len() && a.drop_last()[k] == x;
                assert(a[k] == x);
            } else {
                assert(a[a.len() - 1] == a.last());
            }
        }
    }
}


pub proof fn lemma_minus_step(a: Seq<isize>, b: Seq<isize>, j: int)
    requires 0 < j <= a.len()
    ensures minus(a.subrange(0, j), b) =~=
        (if b.contains(a[j - 1]) { minus(a.subrange(0, j - 1), b) } else { minus(a.subrange(0, j - 1), b).push(a[j - 1]) })
{
    let t = a.subrange(0, j);
    assert(t.drop_last() =~= a.subrange(0, j - 1));
    assert(t.last() == a[j - 1]);
}

impl<'a> FiniteDomainIter<'a> {
    #[verifier::external_body]
    pub fn next(&mut self) -> (r: Option<isize>)
        ensures
            match r {
                None => fdi_rem(*old(self)).len() == 0 && fdi_rem(*final(self)).len() == 0,
                Some(x) => fdi_rem(*old(self)).len() > 0 && x == fdi_rem(*old(self))[0]
                           && fdi_rem(*final(self)) =~= fdi_rem(*old(self)).drop_first(),
            }
    { unimplemented!() }
}

impl FiniteDomain {
    pub open spec fn elems(&self) -> Seq<isize> {
        match self {
            FiniteDomain::Interval(r) => interval_seq(*r),
            FiniteDomain::Sparse(v) => v@,
        }
    }
    pub open spec fn wf(&self) -> bool { self.elems().len() > 0 && strictly_sorted(self.elems()) }
    pub open spec fn has(&self, x: isize) -> bool { self.elems().contains(x) }

    #[verifier::external_body]
    pub fn iter(&self) -> (r: FiniteDomainIter<'_>)
        ensures fdi_rem(r) == self.elems()
    { unimplemented!() }

    pub fn diff(&self, other: &FiniteDomain) -> (r: Option<FiniteDomain>)
        requires self.wf(), other.wf()
        ensures
            match r {
                None => forall|x: isize| self.has(x) ==> other.has(x),
                Some(d) => d.wf() && forall|x: isize| d.has(x) <==> (self.has(x) && !other.has(x)),
            }
    {
        proof {
            lemma_minus_contains(self.elems(), other.elems());
            lemma_minus_sorted(self.elems(), other.elems());
            assert(self.elems().subrange(0, self.elems().len() as int) =~= self.elems());
        }
        let mut difference = vec![];
        let mut siter = self.iter();
        let mut oiter = other.iter();
        let mut maybe_s = siter.next();
        let mut maybe_o = oiter.next();
        loop
            invariant
                self.wf(), other.wf(),
                cursor_ok(maybe_s, siter, self.elems()),
                cursor_ok(maybe_o, oiter, other.elems()),
                difference@ =~= minus(self.elems().subrange(0, done(maybe_s, siter, self.elems())), other.elems()),
                // every consumed element of other is below the current element of self
                maybe_s matches Some(s) ==> forall|k: int| 0 <= k < done(maybe_o, oiter, other.elems()) ==> other.elems()[k] < s,
            ensures maybe_s.is_none(), difference@ =~= minus(self.elems(), other.elems()),
            decreases fdi_rem(siter).len() + fdi_rem(oiter).len() + (if maybe_s.is_some() {1int} else {0int}) + (if maybe_o.is_some() {1int} else {0int}),
        {
            proof {
                assert(self.elems().subrange(0, self.elems().len() as int) =~= self.elems());
                if maybe_s.is_some() {
                    lemma_minus_step(self.elems(), other.elems(), done(maybe_s, siter, self.elems()) + 1);
                }
            }
            match (maybe_s, maybe_o) {
                (Some(s), None) => {
                    maybe_s = siter.next();
                    difference.push(s);
                }
                (Some(s), Some(o)) if s < o => {
                    maybe_s = siter.next();
                    difference.push(s);
                }
                (Some(s), Some(o)) if s == o => {
                    maybe_s = siter.next();
                    maybe_o = oiter.next();
                }
                (Some(s), Some(o)) if s > o => {
                    maybe_o = oiter.next();
                }
                _ => break,
            }
        }

        proof { assert(forall|x: isize| difference@.contains(x) <==> (self.has(x) && !other.has(x))); }
        if difference.is_empty() {
            None
        } else {
            Some(FiniteDomain::Sparse(difference))
        }
    }
}
}
fn main(){}
