use vstd::prelude::*;
use std::marker::PhantomData;
use std::rc::Rc;
use std::ops::RangeInclusive;
verus! {
pub assume_specification [isize::saturating_add] (a: isize, b: isize) -> (r: isize)
    ensures r == if a + b > isize::MAX { isize::MAX as int } else if a + b < isize::MIN { isize::MIN as int } else { a + b };
pub assume_specification [isize::saturating_sub] (a: isize, b: isize) -> (r: isize)
    ensures r == if a - b > isize::MAX { isize::MAX as int } else if a - b < isize::MIN { isize::MIN as int } else { a - b };

pub trait User: 'static {}
pub trait Engine<U>: Sized + 'static {}

#[verifier::external_body] #[verifier::accept_recursive_types(U)] #[verifier::accept_recursive_types(E)]
pub struct State<U, E> { _p: PhantomData<(U,E)> }
#[verifier::external_body] #[verifier::accept_recursive_types(U)] #[verifier::accept_recursive_types(E)]
pub struct SMap<U, E> { _p: PhantomData<(U,E)> }
#[verifier::external_body] #[verifier::accept_recursive_types(U)] #[verifier::accept_recursive_types(E)]
pub struct DStore<U, E> { _p: PhantomData<(U,E)> }
#[verifier::external_body] #[verifier::accept_recursive_types(U)] #[verifier::accept_recursive_types(E)]
pub struct LTerm<U, E> { _p: PhantomData<(U,E)> }
#[verifier::external_body]
pub struct FiniteDomain { x: usize }
#[verifier::external_body]
pub struct VarID { x: usize }

pub enum LValue { Bool(bool), Number(isize), Char(char), String(String) }
pub enum LTermInner<U, E> {
    Val(LValue),
    Var(VarID, &'static str),
    Empty,
    Cons(LTerm<U, E>, LTerm<U, E>),
    Projection(LTerm<U, E>),
}
pub type SResult<U, E> = Result<State<U, E>, ()>;

impl FiniteDomain {
    #[verifier::external_body] pub fn min(&self) -> isize { unimplemented!() }
    #[verifier::external_body] pub fn max(&self) -> isize { unimplemented!() }
    #[verifier::external_body] pub fn from(r: RangeInclusive<isize>) -> FiniteDomain { unimplemented!() }
    #[verifier::external_body] pub fn from_isize(r: isize) -> FiniteDomain { unimplemented!() }
}
impl<U, E> LTerm<U, E> {
    #[verifier::external_body] pub fn as_ref(&self) -> &LTermInner<U, E> { unimplemented!() }
    #[verifier::external_body] pub fn clone(&self) -> Self { unimplemented!() }
    #[verifier::external_body] pub fn is_number(&self) -> bool { unimplemented!() }
    #[verifier::external_body] pub fn get_number(&self) -> Option<isize> { unimplemented!() }
}
impl<U, E> SMap<U, E> {
    #[verifier::external_body] pub fn walk<'a>(&'a self, k: &'a LTerm<U, E>) -> &'a LTerm<U, E> { unimplemented!() }
}
impl<U, E> DStore<U, E> {
    #[verifier::external_body] pub fn get(&self, k: &LTerm<U, E>) -> Option<&Rc<FiniteDomain>> { unimplemented!() }
}
impl<U, E> State<U, E> {
    #[verifier::external_body] pub fn get_smap(&self) -> Rc<SMap<U, E>> { unimplemented!() }
    #[verifier::external_body] pub fn get_dstore(&self) -> Rc<DStore<U, E>> { unimplemented!() }
    #[verifier::external_body] pub fn process_domain(self, x: &LTerm<U, E>, domain: Rc<FiniteDomain>) -> SResult<U, E> { unimplemented!() }
    #[verifier::external_body] pub fn with_constraint(self, c: Rc<PlusFdConstraint<U,E>>) -> State<U, E> { unimplemented!() }
}

pub struct PlusFdConstraint<U, E> { u: LTerm<U, E>, v: LTerm<U, E>, w: LTerm<U, E> }

impl<U, E> PlusFdConstraint<U, E>
where
    U: User,
    E: Engine<U>,
{
    fn run(self: Rc<Self>, state: State<U, E>) -> SResult<U, E> {
        let smap = state.get_smap();
        let dstore = state.get_dstore();

        let uwalk = smap.walk(&self.u);
        let singleton_udomain;
        let maybe_udomain = match uwalk.as_ref() {
            LTermInner::Var(_, _) => dstore.get(uwalk),
            LTermInner::Val(LValue::Number(u)) => {
                singleton_udomain = Rc::new(FiniteDomain::from_isize(*u));
                Some(&singleton_udomain)
            }
            _ => None,
        };

        let vwalk = smap.walk(&self.v);
        let singleton_vdomain;
        let maybe_vdomain = match vwalk.as_ref() {
            LTermInner::Var(_, _) => dstore.get(vwalk),
            LTermInner::Val(LValue::Number(v)) => {
                singleton_vdomain = Rc::new(FiniteDomain::from_isize(*v));
                Some(&singleton_vdomain)
            }
            _ => None,
        };

        let wwalk = smap.walk(&self.w);
        let singleton_wdomain;
        let maybe_wdomain = match wwalk.as_ref() {
            LTermInner::Var(_, _) => dstore.get(wwalk),
            LTermInner::Val(LValue::Number(w)) => {
                singleton_wdomain = Rc::new(FiniteDomain::from_isize(*w));
                Some(&singleton_wdomain)
            }
            _ => None,
        };

        if uwalk.is_number() && vwalk.is_number() && wwalk.is_number() {
            if uwalk.get_number().unwrap().wrapping_add(vwalk.get_number().unwrap())
                == wwalk.get_number().unwrap()
            {
                return Ok(state);
            } else {
                return Err(());
            }
        }

        match (maybe_udomain, maybe_vdomain, maybe_wdomain) {
            (Some(udomain), Some(vdomain), Some(wdomain)) => {
                let umin = udomain.min();
                let umax = udomain.max();
                let vmin = vdomain.min();
                let vmax = vdomain.max();
                let wmin = wdomain.min();
                let wmax = wdomain.max();
                Ok(state
                    .process_domain(
                        &wwalk,
                        Rc::new(FiniteDomain::from(
                            umin.saturating_add(vmin)..=umax.saturating_add(vmax),
                        )),
                    )?
                    .process_domain(
                        &uwalk,
                        Rc::new(FiniteDomain::from(
                            wmin.saturating_sub(vmax)..=wmax.saturating_sub(vmin),
                        )),
                    )?
                    .process_domain(
                        &vwalk,
                        Rc::new(FiniteDomain::from(
                            wmin.saturating_sub(umax)..=wmax.saturating_sub(umin),
                        )),
                    )?
                    .with_constraint(self))
            }
            _ => Ok(state.with_constraint(self)),
        }
    }
}
}
fn main(){}
