use vstd::prelude::*;
use vstd::multiset::*;
use vstd::seq_lib::*;
use std::marker::PhantomData;
verus! {

pub trait User: 'static {}
pub trait Engine<U>: Sized + 'static
where
    U: User,
{
    fn new() -> Self;

    fn step<'a>(&'a self, solver: &'a Solver<U, Self>, lazy: Lazy<U, Self>) -> (r: Stream<U, Self>)
        ensures bag(seq_s(r)) =~= bag(seq_l(LazyStream(Box::new(lazy))));
}

pub struct Solver<U, E>
{
    engine: E,
    debug_enabled: bool,
    _p: PhantomData<U>,
}


#[verifier::external_body]
#[verifier::accept_recursive_types(U)]
#[verifier::accept_recursive_types(E)]
pub struct State<U, E> { _p: PhantomData<(U,E)> }

#[verifier::external_body]
#[verifier::accept_recursive_types(U)]
#[verifier::accept_recursive_types(E)]
pub struct Goal<U, E> { _p: PhantomData<(U,E)> }

#[verifier::external_body]
#[verifier::accept_recursive_types(U)]
#[verifier::accept_recursive_types(E)]
pub struct DFSGoal<U, E> { _p: PhantomData<(U,E)> }

pub assume_specification<T> [std::mem::replace] (dest: &mut T, src: T) -> (r: T)
    ensures *final(dest) == src, r == *old(dest);
// ---- denotation of goals (uninterpreted) ----
pub uninterp spec fn sem<U, E>(g: Goal<U,E>, s: State<U,E>) -> Seq<State<U,E>>;

impl<U, E> Goal<U, E> {
    pub uninterp spec fn spec_is_succeed(&self) -> bool;
    pub uninterp spec fn spec_is_fail(&self) -> bool;
    #[verifier::external_body]
    pub fn is_succeed(&self) -> (r: bool)
        ensures r == self.spec_is_succeed(),
                r ==> forall|s: State<U,E>| #[trigger] sem(*self, s) == seq![s],
    { unimplemented!() }
    #[verifier::external_body]
    pub fn is_fail(&self) -> (r: bool)
        ensures r == self.spec_is_fail(),
                r ==> forall|s: State<U,E>| #[trigger] sem(*self, s) == Seq::<State<U,E>>::empty(),
    { unimplemented!() }
    #[verifier::external_body]
    pub fn clone(&self) -> (r: Self) ensures r == *self { unimplemented!() }
}

pub enum Lazy<U, E> {
    Bind(LazyStream<U, E>, Goal<U, E>),
    MPlus(LazyStream<U, E>, LazyStream<U, E>),
    Pause(Box<State<U, E>>, Goal<U, E>),
    Delay(Stream<U, E>),
}

pub struct LazyStream<U, E>(pub Box<Lazy<U, E>>);

pub enum Stream<U, E> {
    Empty,
    Unit(Box<State<U, E>>),
    Lazy(LazyStream<U, E>),
    Cons(Box<State<U, E>>, LazyStream<U, E>),
}

pub open spec fn bind_seq<U, E>(a: Seq<State<U,E>>, g: Goal<U,E>) -> Seq<State<U,E>>
    decreases a.len()
{
    if a.len() == 0 { Seq::empty() } else { sem(g, a[0]) + bind_seq(a.drop_first(), g) }
}

pub open spec fn seq_l<U, E>(l: LazyStream<U,E>) -> Seq<State<U,E>>
    decreases l
{
    match *l.0 {
        Lazy::Bind(ls, g) => bind_seq(seq_l(ls), g),
        Lazy::MPlus(a, b) => seq_l(a) + seq_l(b),
        Lazy::Pause(s, g) => sem(g, *s),
        Lazy::Delay(st) => seq_s(st),
    }
}

pub open spec fn seq_s<U, E>(s: Stream<U,E>) -> Seq<State<U,E>>
    decreases s
{
    match s {
        Stream::Empty => Seq::empty(),
        Stream::Unit(a) => seq![*a],
        Stream::Lazy(l) => seq_l(l),
        Stream::Cons(a, l) => seq![*a] + seq_l(l),
    }
}

pub open spec fn bag<A>(s: Seq<A>) -> Multiset<A> { s.to_multiset() }


broadcast proof fn lemma_bag_cons<A>(a: A, l: Seq<A>)
    ensures #[trigger] bag(seq![a] + l) =~= bag(l).insert(a)
{
    lemma_bag_add(seq![a], l);
    seq![a].to_multiset_ensures();
    assert(seq![a] =~= Seq::<A>::empty().push(a));
    Seq::<A>::empty().to_multiset_ensures();
    assert(bag(seq![a]) =~= Multiset::<A>::empty().insert(a));
}
broadcast proof fn lemma_bag_empty<A>()
    ensures #[trigger] bag(Seq::<A>::empty()) =~= Multiset::<A>::empty()
{
    Seq::<A>::empty().to_multiset_ensures();
}
broadcast proof fn lemma_bag_one<A>(a: A)
    ensures #[trigger] bag(seq![a]) =~= Multiset::<A>::empty().insert(a)
{
    assert(seq![a] =~= Seq::<A>::empty().push(a));
    Seq::<A>::empty().to_multiset_ensures();
}

proof fn lemma_bag_add<A>(a: Seq<A>, b: Seq<A>)
    ensures bag(a + b) =~= bag(a).add(bag(b))
{
    vstd::seq_lib::lemma_multiset_commutative(a, b);
}

proof fn lemma_bind_seq_add<U, E>(a: Seq<State<U,E>>, b: Seq<State<U,E>>, g: Goal<U,E>)
    ensures bind_seq(a + b, g) =~= bind_seq(a, g) + bind_seq(b, g)
    decreases a.len()
{
    if a.len() == 0 {
        assert(a + b =~= b);
    } else {
        assert((a + b).drop_first() =~= a.drop_first() + b);
        lemma_bind_seq_add(a.drop_first(), b, g);
    }
}

impl<U, E> LazyStream<U, E> {
    pub fn bind(ls: LazyStream<U, E>, goal: Goal<U, E>) -> (r: LazyStream<U, E>)
        ensures r == LazyStream(Box::new(Lazy::Bind(ls, goal)))
    {
        LazyStream(Box::new(Lazy::Bind(ls, goal)))
    }

    pub fn mplus(ls1: LazyStream<U, E>, ls2: LazyStream<U, E>) -> (r: LazyStream<U, E>)
        ensures seq_l(r) == seq_l(ls1) + seq_l(ls2), next_up(r) == next_up(ls1)
    {
        LazyStream(Box::new(Lazy::MPlus(ls1, ls2)))
    }

    pub fn pause(state: Box<State<U, E>>, goal: Goal<U, E>) -> (r: LazyStream<U, E>)
        ensures seq_l(r) == sem(goal, *state)
    {
        LazyStream(Box::new(Lazy::Pause(state, goal)))
    }
}

impl<U, E> Stream<U, E> {
    pub fn cons(a: Box<State<U, E>>, lazy: LazyStream<U, E>) -> (r: Stream<U, E>)
        ensures r == Stream::Cons(a, lazy)
    {
        Stream::Cons(a, lazy)
    }

    pub fn lazy(lazy: LazyStream<U, E>) -> (r: Stream<U, E>)
        ensures r == Stream::Lazy(lazy)
    {
        Stream::Lazy(lazy)
    }
    pub fn empty() -> (r: Stream<U, E>)
        ensures r == Stream::<U,E>::Empty
    {
        Stream::Empty
    }

    pub fn mplus(stream: Stream<U, E>, lazy: LazyStream<U, E>) -> (r: Stream<U, E>)
        ensures bag(seq_s(r)) =~= bag(seq_s(stream)).add(bag(seq_l(lazy)))
    {
        let ghost gstream = stream;
        proof {
            lemma_bag_add(seq_s(stream), seq_l(lazy));
            match gstream {
                Stream::Lazy(lh) => { lemma_bag_add(seq_l(lazy), seq_l(lh)); }
                Stream::Cons(h, lh) => {
                    lemma_bag_add(seq_l(lazy), seq_l(lh));
                    lemma_bag_add(seq![*h], seq_l(lazy) + seq_l(lh));
                    lemma_bag_add(seq![*h], seq_l(lh));
                }
                Stream::Unit(a) => { lemma_bag_add(seq![*a], seq_l(lazy)); }
                _ => {}
            }
        }
        match stream {
            Stream::Empty => Stream::lazy(lazy),
            Stream::Lazy(lazy_hat) => Stream::lazy_mplus(lazy, lazy_hat),
            Stream::Unit(a) => Stream::cons(a, lazy),
            Stream::Cons(head, lazy_hat) => Stream::cons(head, LazyStream::mplus(lazy, lazy_hat)),
        }
    }

    pub fn bind(stream: Stream<U, E>, goal: Goal<U, E>) -> (r: Stream<U, E>)
        ensures seq_s(r) =~= bind_seq(seq_s(stream), goal)
    {
        let ghost gstream = stream;
        proof {
            lemma_bind_id(seq_s(stream), goal);
            lemma_bind_fail(seq_s(stream), goal);
            match gstream {
                Stream::Cons(state, lazy) => { lemma_bind_seq_add(seq![*state], seq_l(lazy), goal); lemma_bind_one(*state, goal); }
                Stream::Unit(a) => { lemma_bind_one(*a, goal); }
                _ => {}
            }
        }
        if goal.is_succeed() {
            stream
        } else if goal.is_fail() {
            Stream::empty()
        } else {
            match stream {
                Stream::Empty => Stream::Empty,
                Stream::Lazy(lazy) => Stream::lazy_bind(lazy, goal),
                Stream::Unit(a) => Stream::pause(a, goal),
                Stream::Cons(state, lazy) => Stream::lazy_mplus(
                    LazyStream::pause(state, goal.clone()),
                    LazyStream::bind(lazy, goal),
                ),
            }
        }
    }

    pub fn lazy_mplus(lazy: LazyStream<U, E>, lazy_hat: LazyStream<U, E>) -> (r: Stream<U, E>)
        ensures seq_s(r) == seq_l(lazy) + seq_l(lazy_hat),
                r matches Stream::Lazy(x) && next_up(x) == next_up(lazy)
    {
        Stream::Lazy(LazyStream::mplus(lazy, lazy_hat))
    }

    pub fn pause(state: Box<State<U, E>>, goal: Goal<U, E>) -> (r: Stream<U, E>)
        ensures seq_s(r) == sem(goal, *state)
    {
        Stream::Lazy(LazyStream::pause(state, goal))
    }
    pub fn lazy_bind(lazy: LazyStream<U, E>, goal: Goal<U, E>) -> (r: Stream<U, E>)
        ensures seq_s(r) =~= bind_seq(seq_l(lazy), goal)
    {
        proof { lemma_bind_id(seq_l(lazy), goal); lemma_bind_fail(seq_l(lazy), goal); }
        if goal.is_succeed() {
            Stream::lazy(lazy)
        } else if goal.is_fail() {
            Stream::empty()
        } else {
            Stream::Lazy(LazyStream::bind(lazy, goal))
        }
    }
}


broadcast proof fn lemma_bind_perm<U, E>(a: Seq<State<U,E>>, b: Seq<State<U,E>>, g: Goal<U,E>)
    requires bag(a) =~= bag(b)
    ensures #[trigger] bag(bind_seq(a, g)) =~= #[trigger] bag(bind_seq(b, g))
    decreases a.len()
{
    a.to_multiset_ensures();
    b.to_multiset_ensures();
    if a.len() == 0 {
        assert(b.len() == 0);
    } else {
        let x = a[0];
        assert(a.contains(x));
        assert(bag(b).count(x) > 0);
        let j = choose|j: int| 0 <= j < b.len() && b[j] == x;
        let b1 = b.remove(j);
        let a1 = a.drop_first();
        assert(a1 =~= a.remove(0));
        vstd::seq_lib::to_multiset_remove(a, 0);
        vstd::seq_lib::to_multiset_remove(b, j);
        lemma_bind_perm(a1, b1, g);
        let pre = b.subrange(0, j);
        let post = b.subrange(j + 1, b.len() as int);
        assert(b =~= pre + seq![x] + post);
        assert(b1 =~= pre + post);
        lemma_bind_seq_add(pre + seq![x], post, g);
        lemma_bind_seq_add(pre, seq![x], g);
        lemma_bind_seq_add(pre, post, g);
        lemma_bind_one(x, g);
        let p = bind_seq(pre, g); let q = bind_seq(post, g); let m = sem(g, x);
        lemma_bag_add(p + m, q);
        lemma_bag_add(p, m);
        lemma_bag_add(p, q);
        lemma_bag_add(m, bind_seq(a1, g));
        assert(bind_seq(a, g) =~= m + bind_seq(a1, g));
    }
}

proof fn lemma_bind_one<U, E>(s: State<U,E>, g: Goal<U,E>)
    ensures bind_seq(seq![s], g) =~= sem(g, s)
{
    assert(seq![s].drop_first() =~= Seq::<State<U,E>>::empty());
    reveal_with_fuel(bind_seq, 2);
}

proof fn lemma_bind_id<U, E>(a: Seq<State<U,E>>, g: Goal<U,E>)
    ensures (forall|s: State<U,E>| #[trigger] sem(g, s) == seq![s]) ==> bind_seq(a, g) =~= a
    decreases a.len()
{
    if a.len() > 0 { lemma_bind_id(a.drop_first(), g); }
}
proof fn lemma_bind_fail<U, E>(a: Seq<State<U,E>>, g: Goal<U,E>)
    ensures (forall|s: State<U,E>| #[trigger] sem(g, s) == Seq::<State<U,E>>::empty()) ==> bind_seq(a, g) =~= Seq::<State<U,E>>::empty()
    decreases a.len()
{
    if a.len() > 0 { lemma_bind_fail(a.drop_first(), g); }
}

impl<U, E> Solver<U, E>
{
    #[verifier::external_body]
    pub fn start(&self, goal: &Goal<U, E>, state: State<U, E>) -> (r: Stream<U, E>)
        ensures seq_s(r) == sem(*goal, state)
    { unimplemented!() }
}
impl<U, E> Solver<U, E>
where
    U: User,
    E: Engine<U>,
{

    #[verifier::exec_allows_no_decreases_clause]
    pub fn next(&mut self, stream: &mut Stream<U, E>) -> (r: Option<Box<State<U, E>>>)
        ensures
            match r {
                None => bag(seq_s(*old(stream))).len() == 0 && *final(stream) == Stream::<U,E>::Empty,
                Some(a) => bag(seq_s(*old(stream))) =~= bag(seq_s(*final(stream))).insert(*a),
            }
    {
        broadcast use lemma_bag_cons, lemma_bag_empty, lemma_bag_one;
        loop
            invariant bag(seq_s(*stream)) =~= bag(seq_s(*old(stream)))
        {
            broadcast use lemma_bag_cons, lemma_bag_empty, lemma_bag_one;
            match std::mem::replace(stream, Stream::Empty) {
                Stream::Empty => {
                    return None;
                }
                Stream::Unit(state) => {
                    return Some(state);
                }
                Stream::Lazy(LazyStream(lazy)) => *stream = self.engine.step(self, *lazy),
                Stream::Cons(state, lazy_stream) => {
                    *stream = Stream::Lazy(lazy_stream);
                    return Some(state);
                }
            }
        }
    }
}

pub struct StreamEngine<U: User> {
    _phantom: PhantomData<U>,
}

impl<U> Engine<U> for StreamEngine<U>
where
    U: User,
{
    fn new() -> Self {
        StreamEngine {
            _phantom: PhantomData,
        }
    }

    fn step(&self, solver: &Solver<U, Self>, lazy: Lazy<U, Self>) -> (r: Stream<U, Self>)
        decreases lazy
    {
        let ghost glazy = lazy;
        proof {
            broadcast use lemma_bind_perm;
            match glazy {
                Lazy::MPlus(s1, s2) => { lemma_bag_add(seq_l(s1), seq_l(s2)); }
                _ => {}
            }
        }
        match lazy {
            Lazy::MPlus(s1, s2) => {
                let stream = self.step(solver, *s1.0);
                Stream::mplus(stream, s2)
            }
            Lazy::Bind(s, goal) => {
                let stream = self.step(solver, *s.0);
                Stream::bind(stream, goal)
            }
            Lazy::Pause(state, goal) => solver.start(&goal, *state),
            Lazy::Delay(stream) => stream,
        }
    }
}

impl<U, E> Stream<U, E> {
    pub fn head(&self) -> (r: Option<&Box<State<U, E>>>)
        ensures match *self { Stream::Unit(a) => r == Some(&a), Stream::Cons(a, _) => r == Some(&a), _ => r.is_none() }
    {
        match self {
            Stream::Unit(a) | Stream::Cons(a, _) => Some(a),
            _ => None,
        }
    }
}
impl<U, E> Solver<U, E>
where
    U: User,
    E: Engine<U>,
{
    #[verifier::exec_allows_no_decreases_clause]
    pub fn peek<'a>(&self, stream: &'a mut Stream<U, E>) -> (r: Option<&'a Box<State<U, E>>>)
        ensures bag(seq_s(*final(stream))) =~= bag(seq_s(*old(stream))),
                r.is_some() <==> bag(seq_s(*old(stream))).len() > 0,
    {
        loop
            invariant bag(seq_s(*stream)) =~= bag(seq_s(*old(stream)))
        {
            broadcast use lemma_bag_cons, lemma_bag_empty, lemma_bag_one;
            match stream {
                Stream::Lazy(_) => {
                    if let Stream::Lazy(LazyStream(lazy)) = std::mem::replace(stream, Stream::Empty)
                    {
                        *stream = self.engine.step(self, *lazy);
                    }
                }
                _ => return stream.head(),
            }
        }
    }

    #[verifier::exec_allows_no_decreases_clause]
    pub fn trunc<'a>(&self, stream: &'a mut Stream<U, E>) -> (r: Option<&'a Box<State<U, E>>>)
        ensures r.is_some() <==> bag(seq_s(*old(stream))).len() > 0,
                match *final(stream) { Stream::Empty => r.is_none(), Stream::Unit(a) => bag(seq_s(*old(stream))).count(*a) > 0, _ => false },
    {
        loop
            invariant bag(seq_s(*stream)) =~= bag(seq_s(*old(stream)))
        {
            broadcast use lemma_bag_cons, lemma_bag_empty, lemma_bag_one;
            match std::mem::replace(stream, Stream::Empty) {
                Stream::Empty => return None,
                Stream::Lazy(LazyStream(lazy)) => {
                    *stream = self.engine.step(self, *lazy);
                }
                Stream::Unit(a) | Stream::Cons(a, _) => {
                    *stream = Stream::Unit(a);
                    return stream.head();
                }
            }
        }
    }
}

pub open spec fn next_up<U, E>(l: LazyStream<U,E>) -> LazyStream<U,E>
    decreases l
{
    match *l.0 {
        Lazy::MPlus(a, _) => next_up(a),
        Lazy::Bind(a, _) => next_up(a),
        _ => l,
    }
}
impl<U, E> Stream<U, E> {
    pub fn mplus2(stream: Stream<U, E>, lazy: LazyStream<U, E>) -> (r: Stream<U, E>)
        ensures
            stream matches Stream::Lazy(lh) ==> (r matches Stream::Lazy(x) && next_up(x) == next_up(lazy)),
            stream matches Stream::Cons(h, lh) ==> (r matches Stream::Cons(h2, x) && h2 == h && next_up(x) == next_up(lazy)),
            stream matches Stream::Unit(a) ==> r == Stream::Cons(a, lazy),
            stream is Empty ==> r == Stream::Lazy(lazy),
    {
        match stream {
            Stream::Empty => Stream::lazy(lazy),
            Stream::Lazy(lazy_hat) => Stream::lazy_mplus(lazy, lazy_hat),
            Stream::Unit(a) => Stream::cons(a, lazy),
            Stream::Cons(head, lazy_hat) => Stream::cons(head, LazyStream::mplus(lazy, lazy_hat)),
        }
    }
}

}
fn main(){}
