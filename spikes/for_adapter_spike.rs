use vstd::prelude::*;
verus! {
fn g(v: &Vec<u64>) -> (s: u64)
    ensures s == 0
{
    let mut s: u64 = 0;
    let ghost mut n: int = 0;
    for x in it: v.iter().rev()
        invariant s == 0, n == it.index(),
    {
        s = s & *x;
        proof { n = n + 1; }
    }
    s
}
}
fn main(){}
