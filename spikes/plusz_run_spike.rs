use vstd::prelude::*;
use std::marker::PhantomData;
use std::rc::Rc;
verus! {
pub trait User: 'static { type UserTerm; }
pub trait Engine<U: User>: Sized + 'static {}

#[verifier::external_body]
#[verifier::accept_recursive_types(U)]
#[verifier::accept_recursive_types(E)]
pub struct State<U, E> { _p: PhantomData<(U,E)> }

#[verifier::external_body]
#[verifier::accept_recursive_types(U)]
#[verifier::accept_recursive_types(E)]
pub struct SMap<U, E> { _p: PhantomData<(U,E)> }

#[verifier::external_body]
#[verifier::accept_recursive_types(U)]
#[verifier::accept_recursive_types(E)]
pub struct LTerm<U, E> { _p: PhantomData<(U,E)> }

pub enum LValue {
    Bool(bool),
    Number(isize),
    Char(char),
    String(String),
}

#[verifier::external_body]
pub struct VarID { x: usize }

pub enum LTermInner<U, E>
{
    Val(LValue),
    Var(VarID, &'static str),
    Empty,
    Cons(LTerm<U, E>, LTerm<U, E>),
    Projection(LTerm<U, E>),
}

pub open spec fn num_of<U,E>(t: LTermInner<U,E>) -> Option<int> {
    match t { LTermInner::Val(LValue::Number(n)) => Some(n as int), _ => None }
}
pub type SResult<U, E> = Result<State<U, E>, ()>;

impl<U, E> LTerm<U, E> {
    pub uninterp spec fn inner(&self) -> LTermInner<U,E>;
    #[verifier::external_body]
    pub fn as_ref(&self) -> (r: &LTermInner<U, E>) ensures *r == self.inner() { unimplemented!() }
    #[verifier::external_body]
    pub fn clone(&self) -> (r: Self) ensures r == *self { unimplemented!() }
    #[verifier::external_body]
    pub uninterp spec fn spec_from_number(n: int) -> Self;
    pub fn from(n: isize) -> (r: Self) ensures r == Self::spec_from_number(n as int) { unimplemented!() }
}
impl<U, E> SMap<U, E> {
    pub uninterp spec fn spec_walk(&self, k: LTerm<U,E>) -> LTerm<U,E>;
    #[verifier::external_body]
    pub fn walk<'a>(&'a self, k: &'a LTerm<U, E>) -> (r: &'a LTerm<U, E>) ensures *r == self.spec_walk(*k) { unimplemented!() }
    pub uninterp spec fn spec_extend(self, k: LTerm<U,E>, v: LTerm<U,E>) -> SMap<U,E>;
    #[verifier::external_body]
    pub fn extend(&mut self, k: LTerm<U, E>, v: LTerm<U, E>)
        ensures *final(self) == old(self).spec_extend(k, v)
    { unimplemented!() }
}
impl<U, E> State<U, E> {
    pub uninterp spec fn smap(&self) -> SMap<U,E>;
    #[verifier::external_body]
    pub fn smap_ref(&self) -> (r: &SMap<U, E>) ensures *r == self.smap() { unimplemented!() }
    pub uninterp spec fn with_smap(self, m: SMap<U,E>) -> State<U,E>;
    pub uninterp spec fn spec_run_constraints(self) -> SResult<U,E>;
    #[verifier::external_body]
    pub fn smap_to_mut(&mut self) -> (r: &mut SMap<U, E>)
        ensures *r == old(self).smap(), *final(self) == old(self).with_smap(*final(r))
    { unimplemented!() }
    #[verifier::external_body]
    pub fn run_constraints(self) -> (r: SResult<U, E>) ensures r == self.spec_run_constraints() { unimplemented!() }
    #[verifier::external_body]
    pub fn with_constraint(self, c: Rc<PlusZConstraint<U,E>>) -> State<U, E> { unimplemented!() }
}

pub struct PlusZConstraint<U, E>
{
    u: LTerm<U, E>,
    v: LTerm<U, E>,
    w: LTerm<U, E>,
}

impl<U, E> PlusZConstraint<U, E>
where
    U: User,
    E: Engine<U>,
{
    fn run(self: Rc<Self>, mut state: State<U, E>) -> (r: SResult<U, E>)
        ensures
            ({
                let uw = state.smap().spec_walk(self.u).inner();
                let vw = state.smap().spec_walk(self.v).inner();
                let ww = state.smap().spec_walk(self.w);
                (num_of(uw) is Some && num_of(vw) is Some && ww.inner() is Var
                   && isize::MIN <= num_of(uw).unwrap() + num_of(vw).unwrap() <= isize::MAX)
                  ==> r == state.with_smap(state.smap().spec_extend(ww, LTerm::<U,E>::spec_from_number(num_of(uw).unwrap() + num_of(vw).unwrap()))).spec_run_constraints()
            })
    {
        let uwalk = state.smap_ref().walk(&self.u).clone();
        let vwalk = state.smap_ref().walk(&self.v).clone();
        let wwalk = state.smap_ref().walk(&self.w).clone();

        match (uwalk.as_ref(), vwalk.as_ref(), wwalk.as_ref()) {
            (
                LTermInner::Val(LValue::Number(u)),
                LTermInner::Val(LValue::Number(v)),
                LTermInner::Val(LValue::Number(w)),
            ) => {
                /* All operands grounded. */
                if u.wrapping_mul(*v) == *w {
                    Ok(state)
                } else {
                    Err(())
                }
            }
            (
                LTermInner::Val(LValue::Number(u)),
                LTermInner::Val(LValue::Number(v)),
                LTermInner::Var(_, _),
            ) => {
                /* u and v grounded */
                state
                    .smap_to_mut()
                    .extend(wwalk.clone(), LTerm::from(u.wrapping_add(*v)));
                state.run_constraints()
            }
            (LTermInner::Var(_, _), LTermInner::Var(_, _), LTermInner::Val(LValue::Number(_)))
            | (LTermInner::Var(_, _), LTermInner::Val(LValue::Number(_)), LTermInner::Var(_, _))
            | (LTermInner::Val(LValue::Number(_)), LTermInner::Var(_, _), LTermInner::Var(_, _)) => {
                /* Not enough terms grounded to verify constraint. */
                Ok(state.with_constraint(self))
            }
            _ => {
                /* Some operands grounded to terms of invalid type. */
                Err(())
            }
        }
    }
}
}
fn main(){}
