use vstd::prelude::*;
use std::marker::PhantomData;
use std::any::Any;
verus! {
pub trait User: 'static {}
pub trait Engine<U: User>: Sized + 'static {}

#[verifier::external_body]
#[verifier::accept_recursive_types(U)]
#[verifier::accept_recursive_types(E)]
pub struct State<U, E> { _p: PhantomData<(U,E)> }
#[verifier::external_body]
#[verifier::accept_recursive_types(U)]
#[verifier::accept_recursive_types(E)]
pub struct Goal<U, E> { _p: PhantomData<(U,E)> }
#[verifier::external_body]
#[verifier::accept_recursive_types(U)]
#[verifier::accept_recursive_types(E)]
pub struct DFSGoal<U, E> { _p: PhantomData<(U,E)> }
#[verifier::external_body]
#[verifier::accept_recursive_types(U)]
#[verifier::accept_recursive_types(E)]
pub struct Stream<U, E> { _p: PhantomData<(U,E)> }
#[verifier::external_body]
#[verifier::accept_recursive_types(U)]
#[verifier::accept_recursive_types(E)]
pub struct Solver<U, E> { _p: PhantomData<(U,E)> }

pub trait AnyGoal<U, E>: 'static {}
impl<U: User, E: Engine<U>> AnyGoal<U,E> for Goal<U,E> {}
impl<U: User, E: Engine<U>> AnyGoal<U,E> for DFSGoal<U,E> {}

pub struct Conde<U, E, G>
{
    conjunctions: Vec<G>,
    _phantom: PhantomData<U>,
    _phantom2: PhantomData<E>,
}

impl<U, E, G> Conde<U, E, G>
where
    U: User,
    E: Engine<U>,
    G: AnyGoal<U, E>,
{
    pub fn as_any(&self) -> &dyn Any {
        self
    }
    fn solve(&self, solver: &Solver<U, E>, state: State<U, E>) -> Stream<U, E> {
        if let Some(bfs) = self.as_any().downcast_ref::<Conde<U, E, Goal<U, E>>>() {
            let n = bfs.conjunctions.len();
            assume(false);
            unreached()
        } else {
            unreached()
        }
    }
}
}
fn main(){}
