#!/bin/sh
# run once after a fresh restore, offline: build the replay crate against /repo and warm Verus up
set -e
cd "$(dirname "$0")"
export CARGO_NET_OFFLINE=true CARGO_TARGET_DIR=/verif/.build
(cd replay && cargo build --release --offline -q 2>/dev/null || cargo build --release --offline)
mkdir -p .work/warm evidence
cat > .work/warm/w.rs <<'W'
use vstd::prelude::*;
verus! { proof fn w() ensures 1 + 1 == 2int {} }
fn main() {}
W
(cd .work/warm && verus w.rs >/dev/null 2>&1 || true)
echo setup ok
